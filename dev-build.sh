#!/bin/sh
# developer helper: instrument a scratch copy of /repo and build the harness into /dev/shm/verif-scratch
set -e
export GOFLAGS=-mod=mod GOPROXY=off GOSUMDB=off GOTOOLCHAIN=local PATH=/opt/veriftools/go1.26.8/bin:$PATH
S=/dev/shm/verif-scratch
mkdir -p $S
if [ "$1" != "-k" ]; then
  rm -rf $S/dials
  rsync -a --exclude .git /repo/ $S/dials/
  if [ -n "$PATCH" ]; then (cd $S/dials && patch -p1 -s < "$PATCH"); fi
  (cd /verif/tools/instrument && go build -o $S/instrument .)
  (cd $S/dials && $S/instrument $S/dials . sourcewrap sources/file ez >/dev/null)
fi
sed "s#/dev/shm/verif-scratch/dials#$S/dials#" /verif/harness/go.mod > $S/go.mod
[ -f $S/go.sum ] || cp /repo/go.sum $S/go.sum
(cd /verif/harness && go build -modfile=$S/go.mod -o $S/harness .)
