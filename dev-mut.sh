#!/bin/sh
# developer helper: run one property's worker against a mutated scratch copy
# usage: dev-mut.sh <prop> <patch> [runs]
P=$1; D=$(readlink -f $2); N=${3:-2000}
PATCH=$D /verif/dev-build.sh || { echo "BUILD FAILED for $D"; exit 2; }
cd /dev/shm/verif-scratch
GOMAXPROCS=1 ./harness -prop $P -seed 7 -from 0 -n $N > out.$P.txt 2>&1
rc=$?
echo "rc=$rc $(grep -c '^R ' out.$P.txt) runs"
grep -v '^R ' out.$P.txt | python3 -c "
import sys,json
for l in sys.stdin:
    try: o=json.loads(l)
    except Exception: print(l[:300]); continue
    if 'violation' in o: print('VIOLATION', o['run'], o['violation']['oracle'], o['violation']['msg'][:600])
    elif 'summary' in o: print('clean', {k:o['summary'].get(k) for k in ('runs','probes','reasons','foreign_oracle_hits')})
    else: print(str(o)[:600])
"
