package main

import (
	"context"
	"errors"
	"fmt"
	"io/fs"
	"reflect"
	"simrt"
	"sort"
	"strings"
	"syscall"
	"time"
	"unsafe"

	"github.com/vimeo/dials"
)

// ---- the config corpus (DESIGN §2.6) ----

type Nested struct {
	S string
	N int
	X *int
}

type Emb struct {
	EmbA int
	EmbS string
	M    map[string]int // shadowed by CfgCore.M: hidden from reflect.VisibleFields, reachable as cfg.Emb.M (set by the defaults only)
}

type label struct{ L string }

func (l label) String() string { return l.L }

// CfgCore is the config type used by the core simulations. StampA..StampD are
// per-source witness leaves: source i, and only source i, sets stamp i, to a
// run-unique number, in every value it returns or reports.
type CfgCore struct {
	StampA, StampB, StampC, StampD uint64
	I                              int
	S                              string
	Dur                            time.Duration
	F                              float64
	B                              bool
	P                              *int
	Strs                           []string
	M                              map[string]int
	Set                            map[string]struct{}
	SM                             []map[string]int          // maps inside a slice
	MM                             map[string][]string       // slices inside a map
	MA                             map[string]map[string]int // maps inside a map; a source may place one inner map under several keys
	KP                             map[KeyP]int              // keys that hold a pointer: the pointee is memory a holder can write to
	Sh                             Shadow                    // a named type that shares its qualified name with a scalars-only type declared inside a function (shadowConfig)
	Pairs                          [][2]*int                 // arrays (holding pointers) inside a slice
	Arr                            [2]string                 // an array leaf
	When                           time.Time                 // a struct that unmarshals from text
	Peers                          []Nested                  // structs (holding a pointer) inside a slice
	PM                             map[string]*Nested        // pointers to structs inside a map
	PWhen                          *time.Time                // a pointer to a struct that unmarshals from text
	TU                             TextU                     // a text-unmarshaling struct with exported reference fields
	Nest                           Nested
	PN                             *Nested
	Emb
	Skip      int            `dials:"-"`
	SkipM     map[string]int `dials:"-"` // skipped by dials, still part of every copy
	SkipP     *int           `dials:"-"`
	unexp     int
	held      Held // unexported; the defaults point HeldP at it
	HeldP     *Held
	Chain     dp120 // 120 levels of nesting
	Ch        chan int
	Fn        func()
	After     int
	Iface     fmt.Stringer
	Lo, Hi    int
	Forbidden bool
}

var errVerify = errors.New("harness: config rejected by Verify")

// valid is the harness's own copy of the predicate (never the type's method).
func valid(c *CfgCore) bool { return c.Lo <= c.Hi && !c.Forbidden }

func (c *CfgCore) Verify() error {
	var err error
	if !(c.Lo <= c.Hi && !c.Forbidden) {
		err = fmt.Errorf("%w: lo=%d hi=%d forbidden=%v", errVerify, c.Lo, c.Hi, c.Forbidden)
	}
	if r := curRun; r != nil {
		r.verifyCalls++
		if r.sc.VerifyStall != 0 && r.verifyCalls == r.sc.VerifyStall && r.phase == "clients" && !r.probing {
			// a Verify that takes long (it consults something slow): the monitor
			// is busy in user code and comes back only once everybody else has
			// gone idle - callers' own contexts are all that bounds their calls
			st := stall{from: time.Now()}
			simrt.SleepIdle(2 * time.Hour)
			st.to = time.Now()
			r.stalls = append(r.stalls, st)
			r.probe("verify-stalled-the-monitor")
		}
		if err == nil && r.sc.FlakyVerify && r.enabledOK {
			if _, installed := r.byPtr[c]; installed {
				err = fmt.Errorf("%w: verifying an installed config once more (the world has changed)", errVerify)
				r.probe("flaky-verify-fired")
			}
		}
		r.onVerify(c, err)
	}
	return err
}

func (c *CfgCore) stamps() [4]uint64 { return [4]uint64{c.StampA, c.StampB, c.StampC, c.StampD} }

var stampNames = [4]string{"StampA", "StampB", "StampC", "StampD"}

// TextU unmarshals from text (pointer receiver), so dials treats it as a leaf,
// yet it holds a map and a slice a holder could write to.
type TextU struct {
	S string
	M map[string]int
	L []string
}

func (t *TextU) UnmarshalText(b []byte) error {
	if name, ok := strings.CutPrefix(string(b), "load:"); ok {
		// a leaf that names a file the application loads while decoding (a
		// certificate, an include): this one does not exist
		return fmt.Errorf("loading %s: %w", name, &fs.PathError{Op: "open", Path: name, Err: syscall.ENOENT})
	}
	t.S, t.M, t.L = string(b), map[string]int{string(b): len(b)}, []string{string(b)}
	return nil
}

func buildTU(s string) TextU {
	var t TextU
	t.UnmarshalText([]byte(s))
	return t
}

// Held has reference-typed exported fields; CfgCore keeps one in an unexported
// field and (in the defaults) an exported pointer to that very field.
type Held struct {
	M map[string]int
	L []string
}

func buildHeld(s string) Held {
	return Held{M: map[string]int{s: len(s)}, L: []string{s, s + "'"}}
}

// Deep nesting without a recursive type (the decoders' transformer does not
// terminate on those): 120 levels of slices around a map.
type dp0 = map[string]int
type dp1 = []dp0
type dp2 = []dp1
type dp3 = []dp2
type dp4 = []dp3
type dp5 = []dp4
type dp6 = []dp5
type dp7 = []dp6
type dp8 = []dp7
type dp9 = []dp8
type dp10 = []dp9
type dp11 = []dp10
type dp12 = []dp11
type dp13 = []dp12
type dp14 = []dp13
type dp15 = []dp14
type dp16 = []dp15
type dp17 = []dp16
type dp18 = []dp17
type dp19 = []dp18
type dp20 = []dp19
type dp21 = []dp20
type dp22 = []dp21
type dp23 = []dp22
type dp24 = []dp23
type dp25 = []dp24
type dp26 = []dp25
type dp27 = []dp26
type dp28 = []dp27
type dp29 = []dp28
type dp30 = []dp29
type dp31 = []dp30
type dp32 = []dp31
type dp33 = []dp32
type dp34 = []dp33
type dp35 = []dp34
type dp36 = []dp35
type dp37 = []dp36
type dp38 = []dp37
type dp39 = []dp38
type dp40 = []dp39
type dp41 = []dp40
type dp42 = []dp41
type dp43 = []dp42
type dp44 = []dp43
type dp45 = []dp44
type dp46 = []dp45
type dp47 = []dp46
type dp48 = []dp47
type dp49 = []dp48
type dp50 = []dp49
type dp51 = []dp50
type dp52 = []dp51
type dp53 = []dp52
type dp54 = []dp53
type dp55 = []dp54
type dp56 = []dp55
type dp57 = []dp56
type dp58 = []dp57
type dp59 = []dp58
type dp60 = []dp59
type dp61 = []dp60
type dp62 = []dp61
type dp63 = []dp62
type dp64 = []dp63
type dp65 = []dp64
type dp66 = []dp65
type dp67 = []dp66
type dp68 = []dp67
type dp69 = []dp68
type dp70 = []dp69
type dp71 = []dp70
type dp72 = []dp71
type dp73 = []dp72
type dp74 = []dp73
type dp75 = []dp74
type dp76 = []dp75
type dp77 = []dp76
type dp78 = []dp77
type dp79 = []dp78
type dp80 = []dp79
type dp81 = []dp80
type dp82 = []dp81
type dp83 = []dp82
type dp84 = []dp83
type dp85 = []dp84
type dp86 = []dp85
type dp87 = []dp86
type dp88 = []dp87
type dp89 = []dp88
type dp90 = []dp89
type dp91 = []dp90
type dp92 = []dp91
type dp93 = []dp92
type dp94 = []dp93
type dp95 = []dp94
type dp96 = []dp95
type dp97 = []dp96
type dp98 = []dp97
type dp99 = []dp98
type dp100 = []dp99
type dp101 = []dp100
type dp102 = []dp101
type dp103 = []dp102
type dp104 = []dp103
type dp105 = []dp104
type dp106 = []dp105
type dp107 = []dp106
type dp108 = []dp107
type dp109 = []dp108
type dp110 = []dp109
type dp111 = []dp110
type dp112 = []dp111
type dp113 = []dp112
type dp114 = []dp113
type dp115 = []dp114
type dp116 = []dp115
type dp117 = []dp116
type dp118 = []dp117
type dp119 = []dp118
type dp120 = []dp119

const deepLevelsCore = 120

func buildDeep(seed int) dp120 {
	var v reflect.Value = reflect.ValueOf(dp0{"seed": seed})
	for i := 0; i < deepLevelsCore; i++ {
		s := reflect.MakeSlice(reflect.SliceOf(v.Type()), 1, 1)
		s.Index(0).Set(v)
		v = s
	}
	return v.Interface().(dp120)
}

// deepBottom returns the map at the bottom of a deep value (nil if absent).
func deepBottom(d dp120) dp0 {
	v := reflect.ValueOf(d)
	for v.Kind() == reflect.Slice {
		if v.Len() == 0 {
			return nil
		}
		v = v.Index(0)
	}
	m, _ := v.Interface().(dp0)
	return m
}

type PeerSpec struct {
	S string `json:"s"`
	X int    `json:"x"`
}

func buildPeers(spec []PeerSpec) []Nested {
	out := make([]Nested, len(spec))
	for i, p := range spec {
		x := p.X
		out[i] = Nested{S: p.S, N: i, X: &x}
	}
	return out
}

func buildPM(spec map[string]string) map[string]*Nested {
	out := map[string]*Nested{}
	for k, v := range spec {
		out[k] = &Nested{S: v}
	}
	return out
}

func mustTime(s string) time.Time {
	t, err := time.Parse(time.RFC3339, s)
	if err != nil {
		panic(err)
	}
	return t
}

// Part is a partial config: what one layer sets. nil / absent means unset.
// It is plain data so that scenarios can be written to replay files.
type Part struct {
	ID        uint64              `json:"id"` // run-unique; becomes the owning source's stamp
	I         *int                `json:"i,omitempty"`
	S         *string             `json:"s,omitempty"`
	Dur       *int64              `json:"dur,omitempty"`
	F         *float64            `json:"f,omitempty"`
	B         *bool               `json:"b,omitempty"`
	P         *int                `json:"p,omitempty"`
	Strs      []string            `json:"strs"`
	M         map[string]int      `json:"m"`
	Set       []string            `json:"set,omitempty"`
	SM        []map[string]int    `json:"sm,omitempty"`
	MM        map[string][]string `json:"mm,omitempty"`
	MA        map[string]int      `json:"ma,omitempty"` // key -> inner map number; equal numbers are one and the same map object
	KP        []string            `json:"kp,omitempty"` // names of the keys of the pointer-keyed map
	Sh        []string            `json:"sh,omitempty"` // tags of the Shadow leaf
	Pairs     [][2]int            `json:"pairs,omitempty"`
	Arr       []string            `json:"arr,omitempty"`  // two elements
	When      *string             `json:"when,omitempty"` // RFC 3339
	Peers     []PeerSpec          `json:"peers,omitempty"`
	PM        map[string]string   `json:"pm,omitempty"` // key -> Nested.S
	PWhen     *string             `json:"p_when,omitempty"`
	TU        *string             `json:"tu,omitempty"`
	Held      *string             `json:"held,omitempty"`
	Chain     int                 `json:"chain,omitempty"` // depth of the Stage chain (0: unset)
	NestS     *string             `json:"nest_s,omitempty"`
	NestN     *int                `json:"nest_n,omitempty"`
	NestX     *int                `json:"nest_x,omitempty"`
	PNS       *string             `json:"pn_s,omitempty"`
	PNN       *int                `json:"pn_n,omitempty"`
	EmbA      *int                `json:"emb_a,omitempty"`
	EmbS      *string             `json:"emb_s,omitempty"`
	EmbM      map[string]int      `json:"emb_m,omitempty"` // defaults only
	After     *int                `json:"after,omitempty"`
	Iface     *string             `json:"iface,omitempty"`
	BadIface  bool                `json:"bad_iface,omitempty"` // ill-typed value: stacking fails
	Lo        *int                `json:"lo,omitempty"`
	Hi        *int                `json:"hi,omitempty"`
	Forbidden *bool               `json:"forbidden,omitempty"`
	Share     bool                `json:"share,omitempty"` // C02: the same map / backing array / pointer is placed in two leaves
}

func setPtr(f reflect.Value, v any) {
	p := reflect.New(f.Type().Elem())
	p.Elem().Set(reflect.ValueOf(v).Convert(f.Type().Elem()))
	f.Set(p)
}

func cloneStrs(s []string) []string {
	if s == nil {
		return nil
	}
	out := make([]string, len(s), len(s)+2)
	copy(out, s)
	return out
}

func cloneM(m map[string]int) map[string]int {
	if m == nil {
		return nil
	}
	out := make(map[string]int, len(m))
	for k, v := range m {
		out[k] = v
	}
	return out
}

// Shadow: reflect reports this type as "main.Shadow" - and so it does the
// type of the same name that shadowConfig declares inside a function, which
// has scalar fields only. Two distinct types, one qualified name.
type Shadow struct {
	Host string
	Tags []string
	W    map[string]int
}

func buildSh(tags []string) Shadow {
	sh := Shadow{Host: "sh", Tags: cloneStrs(tags), W: map[string]int{}}
	for i, t := range tags {
		sh.W[t] = i
	}
	return sh
}

// shadowConfig is "an earlier component of the process": it loads a small
// config of its own through dials, whose type has a field of a function-local
// type named Shadow with scalar fields only. Called once per worker process,
// before the first run.
func shadowConfig() {
	type Shadow struct {
		Host string
		Port int
	}
	type earlier struct {
		Up Shadow
		N  int
	}
	d, err := dials.Config(context.Background(), &earlier{Up: Shadow{Host: "h", Port: 1}, N: 1})
	if err != nil || d.View().Up.Port != 1 {
		panic(fmt.Sprint("harness: the earlier component's config failed: ", err))
	}
}

// KeyP is a comparable struct that holds a pointer: as a map key it is
// compared by the pointer's identity, and what it points to is ordinary memory.
type KeyP struct {
	Name string
	Z    *Zone
}

type Zone struct{ ID int }

func buildKP(names []string) map[KeyP]int {
	out := map[KeyP]int{}
	for i, n := range names {
		// (names are made unique: two keys never render alike)
		out[KeyP{Name: fmt.Sprintf("%s#%d", n, i), Z: &Zone{ID: len(n) + i}}] = i + 1
	}
	return out
}

// buildMA: one inner map object per number, shared by every key that names it.
func buildMA(spec map[string]int) map[string]map[string]int {
	inner := map[int]map[string]int{}
	out := map[string]map[string]int{}
	for k, n := range spec {
		if inner[n] == nil {
			inner[n] = map[string]int{"v": n}
		}
		out[k] = inner[n]
	}
	return out
}

func buildPairs(spec [][2]int) [][2]*int {
	out := make([][2]*int, len(spec))
	for i, pr := range spec {
		a, b := pr[0], pr[1]
		out[i] = [2]*int{&a, &b}
	}
	return out
}

type notStringer struct{ X int }

// buildValue renders p as a value of the pointerified type t (what a source
// returns). owner is the index of the source whose stamp leaf gets p.ID
// (owner < 0: no stamp).
func buildValue(t reflect.Type, p *Part, owner int) reflect.Value {
	if p.BadIface {
		// same layout, but Iface holds a type that does not implement the
		// field's interface: compose must fail, not panic.
		fields := make([]reflect.StructField, t.NumField())
		for i := range fields {
			fields[i] = t.Field(i)
			if fields[i].Name == "Iface" {
				fields[i].Type = reflect.TypeOf(&notStringer{})
			}
		}
		bt := reflect.StructOf(fields)
		v := reflect.New(bt)
		fillValue(v.Elem(), p, owner)
		v.Elem().FieldByName("Iface").Set(reflect.ValueOf(&notStringer{X: 1}))
		return v
	}
	v := reflect.New(t)
	fillValue(v.Elem(), p, owner)
	return v
}

func fillValue(e reflect.Value, p *Part, owner int) {
	fld := func(n string) reflect.Value {
		f := e.FieldByName(n)
		if !f.IsValid() {
			panic("harness: pointerified type lacks field " + n)
		}
		return f
	}
	if owner >= 0 && p.ID != 0 {
		setPtr(fld(stampNames[owner]), p.ID)
	}
	if p.I != nil {
		setPtr(fld("I"), *p.I)
	}
	if p.S != nil {
		setPtr(fld("S"), *p.S)
	}
	if p.Dur != nil {
		setPtr(fld("Dur"), time.Duration(*p.Dur))
	}
	if p.F != nil {
		setPtr(fld("F"), *p.F)
	}
	if p.B != nil {
		setPtr(fld("B"), *p.B)
	}
	if p.P != nil {
		x := *p.P
		fld("P").Set(reflect.ValueOf(&x))
	}
	if p.Strs != nil {
		fld("Strs").Set(reflect.ValueOf(cloneStrs(p.Strs)))
	}
	if p.M != nil {
		fld("M").Set(reflect.ValueOf(cloneM(p.M)))
	}
	if p.Set != nil {
		m := map[string]struct{}{}
		for _, k := range p.Set {
			m[k] = struct{}{}
		}
		fld("Set").Set(reflect.ValueOf(m))
	}
	if p.SM != nil {
		out := make([]map[string]int, len(p.SM))
		for i, m := range p.SM {
			out[i] = cloneM(m)
		}
		fld("SM").Set(reflect.ValueOf(out))
	}
	if p.MM != nil {
		out := map[string][]string{}
		for k, l := range p.MM {
			out[k] = cloneStrs(l)
		}
		fld("MM").Set(reflect.ValueOf(out))
	}
	if p.MA != nil {
		fld("MA").Set(reflect.ValueOf(buildMA(p.MA)))
	}
	if p.KP != nil {
		fld("KP").Set(reflect.ValueOf(buildKP(p.KP)))
	}
	if p.Sh != nil {
		// (pointerified: a pointer to an unnamed struct with a *string Host)
		f, sh := fld("Sh"), buildSh(p.Sh)
		ps := reflect.New(f.Type().Elem())
		setPtr(ps.Elem().FieldByName("Host"), sh.Host)
		ps.Elem().FieldByName("Tags").Set(reflect.ValueOf(sh.Tags))
		ps.Elem().FieldByName("W").Set(reflect.ValueOf(sh.W))
		f.Set(ps)
	}
	if p.Pairs != nil {
		fld("Pairs").Set(reflect.ValueOf(buildPairs(p.Pairs)))
	}
	if len(p.Arr) == 2 {
		setPtr(fld("Arr"), [2]string{p.Arr[0], p.Arr[1]})
	}
	if p.When != nil {
		setPtr(fld("When"), mustTime(*p.When))
	}
	if p.Peers != nil {
		fld("Peers").Set(reflect.ValueOf(buildPeers(p.Peers)))
	}
	if p.PM != nil {
		fld("PM").Set(reflect.ValueOf(buildPM(p.PM)))
	}
	if p.PWhen != nil {
		t := mustTime(*p.PWhen)
		fld("PWhen").Set(reflect.ValueOf(&t))
	}
	if p.TU != nil {
		setPtr(fld("TU"), buildTU(*p.TU))
	}
	if p.Chain > 0 {
		fld("Chain").Set(reflect.ValueOf(buildDeep(int(p.ID))))
	}
	if p.Held != nil {
		f := fld("HeldP")
		h := buildHeld(*p.Held)
		n := reflect.New(f.Type().Elem())
		n.Elem().FieldByName("M").Set(reflect.ValueOf(h.M))
		n.Elem().FieldByName("L").Set(reflect.ValueOf(h.L))
		f.Set(n)
	}
	if p.NestS != nil || p.NestN != nil || p.NestX != nil {
		f := fld("Nest")
		n := reflect.New(f.Type().Elem())
		if p.NestS != nil {
			setPtr(n.Elem().FieldByName("S"), *p.NestS)
		}
		if p.NestN != nil {
			setPtr(n.Elem().FieldByName("N"), *p.NestN)
		}
		if p.NestX != nil {
			x := *p.NestX
			n.Elem().FieldByName("X").Set(reflect.ValueOf(&x))
		}
		f.Set(n)
	}
	if p.PNS != nil || p.PNN != nil {
		f := fld("PN")
		n := reflect.New(f.Type().Elem())
		if p.PNS != nil {
			setPtr(n.Elem().FieldByName("S"), *p.PNS)
		}
		if p.PNN != nil {
			setPtr(n.Elem().FieldByName("N"), *p.PNN)
		}
		f.Set(n)
	}
	if p.EmbA != nil || p.EmbS != nil {
		f := fld("Emb")
		n := reflect.New(f.Type().Elem())
		if p.EmbA != nil {
			setPtr(n.Elem().FieldByName("EmbA"), *p.EmbA)
		}
		if p.EmbS != nil {
			setPtr(n.Elem().FieldByName("EmbS"), *p.EmbS)
		}
		f.Set(n)
	}
	if p.After != nil {
		setPtr(fld("After"), *p.After)
	}
	if p.Iface != nil && !p.BadIface {
		// defaults never set Iface, so the field keeps its interface type
		fld("Iface").Set(reflect.ValueOf(label{L: *p.Iface}))
	}
	if p.Lo != nil {
		setPtr(fld("Lo"), *p.Lo)
	}
	if p.Hi != nil {
		setPtr(fld("Hi"), *p.Hi)
	}
	if p.Forbidden != nil {
		setPtr(fld("Forbidden"), *p.Forbidden)
	}
	if p.Share && p.P != nil && p.NestX != nil {
		// the very same pointer in two leaves
		e.FieldByName("Nest").Elem().FieldByName("X").Set(e.FieldByName("P"))
	}
}

// defaultsFrom builds the caller's defaults from a Part (all stamps zero).
func defaultsFrom(p *Part) *CfgCore {
	c := &CfgCore{Skip: 77, unexp: 88, After: 3}
	c.Ch = make(chan int, 1)
	sp := 99
	c.SkipM, c.SkipP = map[string]int{"kept": 1}, &sp
	if p.I != nil {
		c.I = *p.I
	}
	if p.S != nil {
		c.S = *p.S
	}
	if p.Dur != nil {
		c.Dur = time.Duration(*p.Dur)
	}
	if p.F != nil {
		c.F = *p.F
	}
	if p.B != nil {
		c.B = *p.B
	}
	if p.Strs != nil {
		c.Strs = cloneStrs(p.Strs)
	}
	if p.M != nil {
		c.M = cloneM(p.M)
	}
	if p.Set != nil {
		c.Set = map[string]struct{}{}
		for _, k := range p.Set {
			c.Set[k] = struct{}{}
		}
	}
	if p.SM != nil {
		c.SM = make([]map[string]int, len(p.SM))
		for i, m := range p.SM {
			c.SM[i] = cloneM(m)
		}
	}
	if p.MM != nil {
		c.MM = map[string][]string{}
		for k, l := range p.MM {
			c.MM[k] = cloneStrs(l)
		}
	}
	if p.MA != nil {
		c.MA = buildMA(p.MA)
	}
	if p.KP != nil {
		c.KP = buildKP(p.KP)
	}
	if p.Sh != nil {
		c.Sh = buildSh(p.Sh)
	}
	if p.Pairs != nil {
		c.Pairs = buildPairs(p.Pairs)
	}
	if len(p.Arr) == 2 {
		c.Arr = [2]string{p.Arr[0], p.Arr[1]}
	}
	if p.When != nil {
		c.When = mustTime(*p.When)
	}
	if p.Peers != nil {
		c.Peers = buildPeers(p.Peers)
	}
	if p.PM != nil {
		c.PM = buildPM(p.PM)
	}
	if p.PWhen != nil {
		t := mustTime(*p.PWhen)
		c.PWhen = &t
	}
	if p.TU != nil {
		c.TU = buildTU(*p.TU)
	}
	if p.Chain > 0 {
		c.Chain = buildDeep(int(p.ID))
	}
	if p.Held != nil {
		c.held = buildHeld(*p.Held)
		c.HeldP = &c.held // an exported pointer to an unexported sibling
	}
	if p.NestS != nil {
		c.Nest.S = *p.NestS
	}
	if p.NestN != nil {
		c.Nest.N = *p.NestN
	}
	if p.NestX != nil {
		x := *p.NestX
		c.Nest.X = &x
	}
	if p.P != nil {
		x := *p.P
		c.P = &x
		if p.Share && p.NestX != nil {
			c.Nest.X = c.P
		}
	}
	if p.PNS != nil || p.PNN != nil {
		c.PN = &Nested{}
		if p.PNS != nil {
			c.PN.S = *p.PNS
		}
		if p.PNN != nil {
			c.PN.N = *p.PNN
		}
	}
	if p.EmbA != nil {
		c.EmbA = *p.EmbA
	}
	if p.EmbS != nil {
		c.EmbS = *p.EmbS
	}
	if p.EmbM != nil {
		c.Emb.M = cloneM(p.EmbM)
	}
	if p.After != nil {
		c.After = *p.After
	}
	if p.Lo != nil {
		c.Lo = *p.Lo
	}
	if p.Hi != nil {
		c.Hi = *p.Hi
	}
	if p.Forbidden != nil {
		c.Forbidden = *p.Forbidden
	}
	return c
}

// ---- canonical rendering (structural fingerprint) ----

// render writes a canonical textual form of v: sorted map keys, pointers
// followed, unexported fields included, channels and functions by nil-ness.
// Pointer sharing classes are rendered as #n back-references.
func render(v any) string {
	var b strings.Builder
	seen := map[unsafe.Pointer]int{}
	renderValue(&b, reflect.ValueOf(v), seen)
	return b.String()
}

func renderValue(b *strings.Builder, v reflect.Value, seen map[unsafe.Pointer]int) {
	if !v.IsValid() {
		b.WriteString("<invalid>")
		return
	}
	switch v.Kind() {
	case reflect.Ptr:
		if v.IsNil() {
			b.WriteString("nil")
			return
		}
		p := v.UnsafePointer()
		if n, ok := seen[p]; ok {
			fmt.Fprintf(b, "#%d", n)
			return
		}
		seen[p] = len(seen) + 1
		fmt.Fprintf(b, "&%d", seen[p])
		renderValue(b, v.Elem(), seen)
	case reflect.Interface:
		if v.IsNil() {
			b.WriteString("nil")
			return
		}
		fmt.Fprintf(b, "(%s)", v.Elem().Type())
		renderValue(b, v.Elem(), seen)
	case reflect.Struct:
		// what a holder can reach: exported fields. (A struct without any, such
		// as time.Time, is an opaque value: all of it is rendered.)
		opaque := true
		for i := 0; i < v.NumField(); i++ {
			if v.Type().Field(i).IsExported() {
				opaque = false
			}
		}
		b.WriteString("{")
		for i := 0; i < v.NumField(); i++ {
			if !opaque && !v.Type().Field(i).IsExported() {
				continue
			}
			if i > 0 {
				b.WriteString(" ")
			}
			b.WriteString(v.Type().Field(i).Name)
			b.WriteString(":")
			renderValue(b, v.Field(i), seen)
		}
		b.WriteString("}")
	case reflect.Map:
		if v.IsNil() {
			b.WriteString("nil")
			return
		}
		keys := v.MapKeys()
		ks := make([]string, len(keys))
		idx := map[string]reflect.Value{}
		for i, k := range keys {
			if k.Kind() == reflect.String {
				ks[i] = k.String()
			} else {
				// by content (a key may hold pointers), with ordinals of its own
				var kb strings.Builder
				renderValue(&kb, k, map[unsafe.Pointer]int{})
				ks[i] = kb.String()
			}
			idx[ks[i]] = k
		}
		sort.Strings(ks)
		b.WriteString("map[")
		for i, k := range ks {
			if i > 0 {
				b.WriteString(" ")
			}
			b.WriteString(k)
			b.WriteString(":")
			renderValue(b, v.MapIndex(idx[k]), seen)
		}
		b.WriteString("]")
	case reflect.Slice:
		if v.IsNil() {
			b.WriteString("nil")
			return
		}
		fallthrough
	case reflect.Array:
		b.WriteString("[")
		for i := 0; i < v.Len(); i++ {
			if i > 0 {
				b.WriteString(" ")
			}
			renderValue(b, v.Index(i), seen)
		}
		b.WriteString("]")
	case reflect.Chan, reflect.Func:
		if v.IsNil() {
			b.WriteString("nil")
		} else {
			b.WriteString("set")
		}
	case reflect.String:
		fmt.Fprintf(b, "%q", v.String())
	case reflect.Bool:
		fmt.Fprintf(b, "%v", v.Bool())
	case reflect.Int, reflect.Int8, reflect.Int16, reflect.Int32, reflect.Int64:
		fmt.Fprintf(b, "%d", v.Int())
	case reflect.Uint, reflect.Uint8, reflect.Uint16, reflect.Uint32, reflect.Uint64, reflect.Uintptr:
		fmt.Fprintf(b, "%d", v.Uint())
	case reflect.Float32, reflect.Float64:
		fmt.Fprintf(b, "%g", v.Float())
	case reflect.Complex64, reflect.Complex128:
		fmt.Fprintf(b, "%g", v.Complex())
	default:
		fmt.Fprintf(b, "<%s>", v.Kind())
	}
}

// ---- address walk (C02) ----

type region struct {
	lo, hi uintptr // [lo,hi)
	what   string
}

// mutableRegions returns the memory regions reachable from v through exported
// fields that a holder of v could mutate: pointer targets, map headers, slice
// backing arrays over [0:cap]. Channels and functions keep their identity by
// documented behaviour and are excluded.
func mutableRegions(v reflect.Value, path string, out *[]region, seen map[uintptr]bool) {
	if !v.IsValid() {
		return
	}
	switch v.Kind() {
	case reflect.Ptr:
		if v.IsNil() {
			return
		}
		p := v.Pointer()
		if seen[p] {
			return
		}
		seen[p] = true
		sz := v.Type().Elem().Size()
		if sz == 0 {
			sz = 1
		}
		*out = append(*out, region{p, p + sz, path})
		mutableRegions(v.Elem(), path+"*", out, seen)
	case reflect.Interface:
		if !v.IsNil() {
			mutableRegions(v.Elem(), path+".(iface)", out, seen)
		}
	case reflect.Struct:
		for i := 0; i < v.NumField(); i++ {
			f := v.Type().Field(i)
			if !f.IsExported() {
				continue
			}
			mutableRegions(v.Field(i), path+"."+f.Name, out, seen)
		}
	case reflect.Map:
		if v.IsNil() {
			return
		}
		p := v.Pointer()
		if seen[p] {
			return
		}
		seen[p] = true
		*out = append(*out, region{p, p + 1, path + "(map)"})
		it := v.MapRange()
		for it.Next() {
			mutableRegions(it.Key(), path+"[key]", out, seen)
			mutableRegions(it.Value(), path+"[k]", out, seen)
		}
	case reflect.Slice:
		if v.IsNil() || v.Cap() == 0 {
			return
		}
		p := v.Pointer()
		es := v.Type().Elem().Size()
		if es == 0 {
			es = 1
		}
		if !seen[p] {
			seen[p] = true
			*out = append(*out, region{p, p + uintptr(v.Cap())*es, path + "(slice)"})
		}
		for i := 0; i < v.Len(); i++ {
			mutableRegions(v.Index(i), path+"[i]", out, seen)
		}
	case reflect.Array:
		for i := 0; i < v.Len(); i++ {
			mutableRegions(v.Index(i), path+"[i]", out, seen)
		}
	}
}

func regionsOf(v reflect.Value) []region {
	var out []region
	mutableRegions(v, "", &out, map[uintptr]bool{})
	return out
}

func overlap(a, b []region) (region, region, bool) {
	for _, x := range a {
		for _, y := range b {
			if x.lo < y.hi && y.lo < x.hi {
				return x, y, true
			}
		}
	}
	return region{}, region{}, false
}

// mergeInPlace makes the value old (a pointer to a pointerified struct that
// was reported earlier) carry exactly the content of nu, writing through the
// pointers, maps and slices old already holds wherever it can: what a source
// does that decodes every new document into one long-lived struct.
func allExported(t reflect.Type) bool {
	for i := 0; i < t.NumField(); i++ {
		if !t.Field(i).IsExported() {
			return false
		}
	}
	return true
}

func mergeInPlace(old, nu reflect.Value) {
	if old.Kind() == reflect.Ptr {
		old, nu = old.Elem(), nu.Elem()
	}
	for i := 0; i < old.NumField(); i++ {
		of, nf := old.Field(i), nu.Field(i)
		switch of.Kind() {
		case reflect.Ptr:
			switch {
			case nf.IsNil():
				of.Set(reflect.Zero(of.Type()))
			case of.IsNil():
				of.Set(nf)
			case of.Type().Elem().Kind() == reflect.Struct && allExported(of.Type().Elem()):
				mergeInPlace(of.Elem(), nf.Elem())
			default:
				of.Elem().Set(nf.Elem())
			}
		case reflect.Map:
			switch {
			case nf.IsNil():
				of.Set(reflect.Zero(of.Type()))
			case of.IsNil():
				of.Set(nf)
			default:
				for _, k := range of.MapKeys() {
					of.SetMapIndex(k, reflect.Value{})
				}
				it := nf.MapRange()
				for it.Next() {
					of.SetMapIndex(it.Key(), it.Value())
				}
			}
		case reflect.Slice:
			if !nf.IsNil() && !of.IsNil() && of.Cap() >= nf.Len() {
				of.Set(of.Slice(0, nf.Len()))
				reflect.Copy(of, nf)
			} else {
				of.Set(nf)
			}
		default:
			of.Set(nf)
		}
	}
}
