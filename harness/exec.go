package main

import (
	"context"
	"fmt"
	"runtime/debug"
	"strings"
	"testing"
	"testing/synctest"
	"time"

	"simrt"
)

// Result is what one run reports to the worker loop.
type Result struct {
	Seed     uint64              `json:"seed"`
	Viol     []Violation         `json:"violations,omitempty"`
	Hash     uint64              `json:"hash"`
	Steps    int                 `json:"steps"`
	NChoices int                 `json:"n_choices"`
	Probes   map[string]int      `json:"probes,omitempty"`
	Faults   map[string]int      `json:"faults,omitempty"`
	SimNS    int64               `json:"sim_ns"`
	States   map[uint64]struct{} `json:"-"`
	Reason   string              `json:"reason"`
	Made     []int               `json:"-"`
	Log      []string            `json:"log,omitempty"`
	Infra    string              `json:"infra,omitempty"` // harness/infrastructure trouble: never a verdict
	Installs int                 `json:"installs"`
	post     []func(*Result)
}

const settleHorizon = 4 * time.Hour

// rootPhase names what the scheduler goroutine is doing when it calls into the library.
var rootPhase = "set-up"

// execute runs one scenario inside its own synctest bubble.
func execute(sc *Scenario, keepLog bool) (res *Result) {
	res = &Result{Seed: sc.Seed, Probes: map[string]int{}, Faults: map[string]int{}}
	defer func() {
		for _, f := range res.post {
			f(res)
		}
		res.post = nil
	}()
	defer func() {
		if x := recover(); x != nil {
			msg := fmt.Sprint(x)
			if strings.Contains(msg, "blocked goroutines remain") || strings.Contains(msg, "deadlock: main bubble goroutine has exited") {
				return // leaks are judged by the leak oracle, from the task table
			}
			if strings.Contains(msg, "all goroutines in bubble are blocked") {
				// a library call the harness makes on the scheduler goroutine
				// itself (Config, a fresh stack, a shutdown step) blocked for
				// good and no task can run: a call that never returns
				res.Viol = append(res.Viol, Violation{Oracle: "stuck", Msg: "a library call made outside the tasks (" + rootPhase + ") never returned and nothing else can run: " + msg})
				res.Reason = "root-blocked"
				return
			}
			res.Infra = "panic outside the simulated tasks: " + msg
		}
	}()
	synctest.Test(&testing.T{}, func(*testing.T) {
		defer func() {
			if x := recover(); x != nil {
				res.Infra = fmt.Sprintf("panic on the scheduler goroutine: %v\n%s", x, debug.Stack())
			}
		}()
		switch {
		case sc.Wrap != nil:
			runWrap(sc, res, keepLog)
		case sc.Stream != nil:
			runStream(sc, res, keepLog)
		case sc.FB != nil:
			runFileBlank(sc, res, keepLog)
		case sc.Ez != nil:
			runEz(sc, res, keepLog)
		case sc.Plain != nil && sc.Plain.Values:
			runPlain2(sc, res, keepLog)
		case sc.Plain != nil:
			runPlain(sc, res, keepLog)
		default:
			runCore(sc, res, keepLog)
		}
	})
	return res
}

func (r *Run) finish(res *Result) {
	s := r.sim
	res.Viol = r.viol
	res.Hash = s.Hash()
	res.Steps = s.Step()
	res.NChoices = s.Choices()
	res.SimNS = int64(s.Elapsed())
	res.States = s.States
	res.Installs = len(r.installs)
	for k, v := range r.probes {
		res.Probes[k] += v
	}
	for k, v := range s.Counters {
		if strings.HasPrefix(k, "fault:") {
			res.Faults[strings.TrimPrefix(k, "fault:")] += v
		} else {
			res.Probes[k] += v
		}
	}
	res.Made = make([]int, len(s.Made))
	for i, c := range s.Made {
		res.Made[i] = c.V
	}
	res.Log = s.Log
	res.post = r.post
	r.postPhase = true
}

func runCore(sc *Scenario, res *Result, keepLog bool) {
	r := newRun(sc)
	curRun = r
	defer func() { curRun = nil }()
	s := simrt.New(sc.Seed, sc.Choices)
	defer s.Close()
	r.sim = s
	s.Record = true
	s.KeepLog = keepLog
	s.Bias = sc.Bias
	r.never = make(chan struct{})
	defer r.cleanupFile()
	simrt.OnFileRead(func(rr simrt.ReadRecord) { r.reads = append(r.reads, rr) })
	defer simrt.OnFileRead(nil)
	if keepLog {
		defer func() {
			for _, rr := range r.reads {
				s.Log = append(s.Log, fmt.Sprintf("READ step=%d err=%q data=%q", rr.Step, rr.Err, rr.Data))
			}
			for _, in := range r.installs {
				s.Log = append(s.Log, fmt.Sprintf("INSTALL step=%d serial=%d stamps=%v", in.Step, in.Serial, in.Stamps))
			}
			res.Log = s.Log
		}()
	}
	r.ctx, r.cancel = context.WithCancel(context.Background())
	r.defaults = defaultsFrom(&sc.Defaults)
	r.defFP = render(r.defaults)
	sources := r.buildSources()
	r.phase = "config"
	rootPhase = "Config"
	raceConfig := sc.File != nil && sc.File.RaceConfig
	doConfig := func() {
		defer func() {
			if x := recover(); x != nil {
				r.fail("crash", "Config panicked: %v", x)
				r.cfgErr = fmt.Errorf("panic: %v", x)
			}
		}()
		d, err := r.params().Config(r.ctx, r.defaults, sources...)
		r.d, r.cfgErr = d, err
	}
	if raceConfig {
		// Config itself is a task: the writer's operations race the initial
		// read and the setting up of the watches. The other clients wait for it.
		r.probe("config-raced-by-writer")
		r.clients++
		s.Spawn("config", func() {
			doConfig()
			r.configDone = true
			r.finished++
		})
	} else {
		doConfig()
		r.configDone = true
		r.oracleConfig()
	}
	for k, v := range sc.Rates {
		s.Faults[k] = v // faults are armed only once Config has returned (or, when raced, from the start)
	}
	if r.d != nil || raceConfig {
		s.AfterStep = r.observe
		r.observe()
		r.phase = "clients"
		rootPhase = "clients phase"
		r.spawnClients()
		reason := s.Run(sc.MaxSteps, r.allClientsDone, time.Time{})
		res.Reason = string(reason)
		if reason == simrt.StepCap {
			r.probe("stepcap")
		}
		r.phase = "settle"
		rootPhase = "settle phase"
		if reason != simrt.StepCap {
			settle := s.Run(sc.MaxSteps, nil, time.Now().Add(settleHorizon))
			res.Reason += "/" + string(settle)
			r.crashOracle()
			r.stuckOracle(reason, settle)
			if reason == simrt.Done && settle == simrt.Quiescent && r.d != nil {
				r.endOracles()
				if (sc.Prop == "C05" || sc.Prop == "C08") && r.ctx.Err() == nil && sc.VerifyStall == 0 {
					// a watcher that never called Done keeps the monitor alive,
					// however many times the others have called theirs
					for _, op := range r.ops {
						if op.K == "done" {
							name := "C05.lost-update"
							if sc.Prop == "C08" {
								name = "C08.monitor-exited-early"
							}
							r.probeReport(name, "other sources have called Done, this one has not", true)
							break
						}
					}
				}
			}
		}
	}
	r.phase = "shutdown"
	rootPhase = "shutdown"
	r.shutdown()
	r.phase = "teardown"
	rootPhase = "teardown"
	close(r.never)
	r.cancel()
	for _, c := range r.named {
		c()
	}
	for _, c := range r.ownCancels {
		c()
	}
	s.Run(20000, nil, time.Now().Add(settleHorizon))
	r.finish(res)
}

// shutdown ends the run the way the scenario says and checks that the
// library's goroutines are gone.
func (r *Run) shutdown() {
	s := r.sim
	if r.d == nil {
		r.cancel()
		s.Run(2000, nil, time.Now().Add(settleHorizon))
		if r.file != nil {
			r.releaseOracle()
			return
		}
		r.leakOracle("after a failed Config")
		return
	}
	if r.sc.Late {
		r.lifecycleShutdown()
		return
	}
	r.cancel()
	s.Run(20000, nil, time.Now().Add(settleHorizon))
	r.crashOracle()
	if r.file != nil {
		r.releaseOracle()
		return
	}
	r.leakOracle("after the Config context was cancelled")
}
