package main

import (
	"context"
	"errors"
	goflag "flag"
	"fmt"
	"math/rand/v2"
	"os"
	"path/filepath"
	"reflect"
	"sort"
	"strconv"
	"strings"
	"time"

	"simrt"

	"github.com/vimeo/dials"
	"github.com/vimeo/dials/ez"
	"github.com/vimeo/dials/sources/flag"
	"github.com/vimeo/dials/tagformat/caseconversion"
)

// ---- C18: the ez entry points (DESIGN §4 C18) ----

// CfgEz: every leaf can be supplied by the defaults, the file, the
// environment and a flag; Stamp only ever comes from the file.
type CfgEz struct {
	Path      string              `dials:"ez_path"`
	Stamp     uint64              `dials:"ez_stamp"`
	A         int                 `dials:"ez_a"`
	B         int                 `dials:"ez_b" dialsalias:"ez_b_old"` // the file (or environment) may still use the old name
	C         int                 `dials:"ez_c"`
	Name      string              `dials:"ez_name"`
	Lo        int                 `dials:"ez_lo"`
	Hi        int                 `dials:"ez_hi"`
	Forbidden bool                `dials:"ez_forbidden"`
	Set       map[string]struct{} `dials:"ez_set"` // written as a list in the file (ez adds the set-to-slice wrapper)
	DB        EzDB                `dials:"ez_db"`  // two levels of nesting: EZ_DB_TLS_MIN, --ez_db-tls-min
	EzEmb
}

type EzDB struct {
	Host  string `dials:"host"`
	Port  int    `dials:"port"`
	TLS   EzTLS  `dials:"tls"`
	Extra int    `dials:"extra"`
}

type EzTLS struct {
	Cert string `dials:"cert"`
	Min  int    `dials:"min"`
}

// EzEmb is embedded in CfgEz: with Params.FlattenAnonymousFields a YAML file
// sets its leaf at the top level, without it under the key "ezemb".
type EzEmb struct {
	Emb int `dials:"ez_emb"`
}

func (c *CfgEz) ConfigPath() (string, bool) { return c.Path, c.Path != "" }

type ezVerify struct {
	step   int
	ptr    *CfgEz
	stamp  uint64
	failed bool
}

var curEz *ezRun

func (c *CfgEz) Verify() error {
	var err error
	if !(c.Lo <= c.Hi && !c.Forbidden) {
		err = fmt.Errorf("%w: lo=%d hi=%d forbidden=%v", errVerify, c.Lo, c.Hi, c.Forbidden)
	}
	if r := curEz; r != nil {
		r.verifies = append(r.verifies, ezVerify{step: r.sim.Step(), ptr: c, stamp: c.Stamp, failed: err != nil})
	}
	return err
}

var ezLeaves = []string{"ez_a", "ez_b", "ez_c", "ez_name", "ez_lo", "ez_hi", "ez_forbidden"}

// the leaves of the nested section (drawn with a lower probability each)
var ezNested = []string{"ez_db.host", "ez_db.port", "ez_db.tls.cert", "ez_db.tls.min", "ez_db.extra"}

func ezStringLeaf(k string) bool { return k == "ez_name" || k == "ez_db.host" || k == "ez_db.tls.cert" }

// EzPart: what one layer (or one version of the file) sets, as strings.
type EzPart struct {
	ID     uint64            `json:"id,omitempty"`
	Leaves map[string]string `json:"leaves,omitempty"`
	Broken bool              `json:"broken,omitempty"` // file only: malformed document
	Empty  string            `json:"empty,omitempty"`  // file only: a well-formed file that holds no settings at all: blank | comments | whitespace
}

type EzSpec struct {
	Format     string   `json:"format"` // json | yaml | toml | cue
	Entry      string   `json:"entry"`  // ext (FileExtensionDecoderConfigEnvFlag) | direct (JSONConfigEnvFlag & co)
	Watch      bool     `json:"watch"`
	PathFrom   string   `json:"path_from"` // none | default | env | flag
	DecoyFrom  string   `json:"decoy_from,omitempty"`
	FileState  string   `json:"file_state"` // ok | missing
	Defaults   EzPart   `json:"defaults"`
	Env        EzPart   `json:"env"`
	Flags      EzPart   `json:"flags"`
	File       EzPart   `json:"file"`
	Decoy      EzPart   `json:"decoy"`
	Kebab      bool     `json:"kebab,omitempty"`       // Params.FileFieldNameEncoder: the file's keys are kebab-case
	Race       bool     `json:"race"`                  // the writer starts while the entry point is still running
	CmdLine    string   `json:"cmd_line,omitempty"`    // "": a flag source of the harness's own; "default": Params.FlagSource left nil (the process's command line); "prereg": likewise, and the application has registered one of the flags itself beforehand
	Linked     bool     `json:"linked,omitempty"`      // the config path is a symlink to a file with another name and extension; new versions are published by re-pointing it
	Flatten    bool     `json:"flatten,omitempty"`     // Params.FlattenAnonymousFields
	EmbLeaf    bool     `json:"emb_leaf,omitempty"`    // YAML files may set the embedded struct's leaf
	EqPath     bool     `json:"eq_path,omitempty"`     // the config file lives in a directory with '=' in its name
	CancelAt   int      `json:"cancel_at,omitempty"`   // >0: the context is cancelled while the entry point is at work (after that many scheduling points of a bystander): it must still return
	WatchFlags bool     `json:"watch_flags,omitempty"` // Params.FlagSource is a watching source of the application's own: it reports new flag values after the entry point has returned
	Writes     []EzPart `json:"writes,omitempty"`
	WriteHow   []string `json:"write_how,omitempty"` // rename | rewrite | delete-create
}

func genEz(seed uint64, faulty bool) *Scenario {
	g := &gen{r: rand.New(rand.NewPCG(seed, 0x5eed5eed))}
	sc := &Scenario{Prop: "C18", Seed: seed, Faulty: faulty, GlobalCB: "instant", Shutdown: "cancel", MaxSteps: 30000}
	e := &EzSpec{FileState: "ok"}
	e.Format = []string{"json", "yaml", "toml", "cue"}[g.r.IntN(4)]
	e.Entry = []string{"ext", "direct"}[g.r.IntN(2)]
	e.Watch = g.pct(50)
	e.PathFrom = []string{"default", "env", "flag", "flag", "env", "none"}[g.r.IntN(6)]
	if e.PathFrom != "none" && g.pct(40) {
		// a lower layer names another file: the higher layer must win
		lower := map[string][]string{"env": {"default"}, "flag": {"default", "env"}}[e.PathFrom]
		if len(lower) > 0 {
			e.DecoyFrom = lower[g.r.IntN(len(lower))]
		}
	}
	val := func(leaf string, layer int) string {
		n := int(g.id())
		switch leaf {
		case "ez_name", "ez_db.host", "ez_db.tls.cert":
			if g.pct(25) {
				// a value with '=' in it (a padded base64 secret, a key=value string)
				return fmt.Sprintf("n%d=k=v==", n)
			}
			return fmt.Sprintf("n%d", n)
		case "ez_forbidden":
			return "false"
		case "ez_lo":
			return strconv.Itoa(g.in(0, 2))
		case "ez_hi":
			return strconv.Itoa(g.in(5, 9))
		}
		return strconv.Itoa(n*10 + layer)
	}
	layer := func(idx, p int) EzPart {
		out := EzPart{Leaves: map[string]string{}}
		for _, l := range ezLeaves {
			if g.pct(p) {
				out.Leaves[l] = val(l, idx)
			}
		}
		if g.pct(60) {
			for _, l := range ezNested {
				if g.pct(p * 2 / 3) {
					out.Leaves[l] = val(l, idx)
				}
			}
		}
		return out
	}
	e.Defaults, e.Env, e.Flags = layer(0, 50), layer(2, 35), layer(3, 35)
	e.File, e.Decoy = layer(1, 50), layer(1, 50)
	e.File.ID, e.Decoy.ID = g.id(), g.id()
	e.Kebab = g.pct(20)
	switch g.r.IntN(6) {
	case 0:
		e.CmdLine = "default"
	case 1:
		e.CmdLine = "prereg"
	}
	e.EmbLeaf = e.Format == "yaml" && !e.Kebab && g.pct(50)
	e.Flatten = e.EmbLeaf && g.pct(60)
	fileExtras := func(p *EzPart) {
		if e.EmbLeaf && g.pct(60) {
			if e.Flatten {
				p.Leaves["ez_emb"] = strconv.Itoa(int(g.id())*10 + 9)
			} else {
				p.Leaves["ezemb.ez_emb"] = strconv.Itoa(int(g.id())*10 + 9)
			}
		}
		if v, ok := p.Leaves["ez_b"]; ok && g.pct(40) {
			delete(p.Leaves, "ez_b")
			p.Leaves["ez_b_old"] = v // the alias
		}
		if g.pct(35) {
			p.Leaves["ez_set"] = fmt.Sprintf("s%d|t%d", g.id(), g.id())
			if g.pct(30) {
				p.Leaves["ez_set"] = "" // the empty list: clears what the defaults hold
			}
		}
	}
	fileExtras(&e.File)
	fileExtras(&e.Decoy)
	if g.pct(40) {
		e.Defaults.Leaves["ez_set"] = "d1|d2"
	}
	if e.EmbLeaf && g.pct(50) {
		e.Defaults.Leaves["ez_emb"] = "77"
	}
	// validity
	switch {
	case g.pct(25):
		// valid only with the file: the defaults alone do not verify
		e.Defaults.Leaves["ez_lo"], e.Defaults.Leaves["ez_hi"] = "7", "3"
		delete(e.Env.Leaves, "ez_lo")
		delete(e.Env.Leaves, "ez_hi")
		delete(e.Flags.Leaves, "ez_lo")
		delete(e.Flags.Leaves, "ez_hi")
		e.File.Leaves["ez_hi"] = "9"
		e.Decoy.Leaves["ez_hi"] = "9"
	case faulty && g.pct(20):
		// invalid even with the file
		e.Flags.Leaves["ez_forbidden"] = "true"
	}
	if faulty && e.PathFrom != "none" {
		switch g.r.IntN(6) {
		case 0:
			e.FileState = "missing"
		case 1:
			e.File.Broken = true
		}
	}
	emptied := func(p *EzPart) {
		// a config file with nothing in it (or every setting commented out)
		// is a valid file that sets nothing
		p.Empty = []string{"blank", "comments", "whitespace"}[g.r.IntN(3)]
		p.Leaves = map[string]string{}
		p.Broken = false
	}
	if g.pct(6) {
		emptied(&e.File)
	}
	e.Linked = e.FileState == "ok" && g.pct(20)
	e.EqPath = g.pct(30)
	if faulty && g.pct(8) {
		e.CancelAt = g.in(1, 120)
	}
	if e.Watch || g.pct(30) {
		n := g.in(0, 4)
		for i := 0; i < n; i++ {
			p := layer(1, 50)
			p.ID = g.id()
			fileExtras(&p)
			if faulty && g.pct(15) {
				p.Broken = true
			}
			if faulty && g.pct(15) {
				p.Leaves["ez_forbidden"] = "true"
			}
			if g.pct(8) {
				emptied(&p)
			}
			e.Writes = append(e.Writes, p)
			e.WriteHow = append(e.WriteHow, []string{"rename", "rename", "rewrite", "delete-create"}[g.r.IntN(4)])
			if e.Linked && g.pct(60) {
				e.WriteHow[len(e.WriteHow)-1] = "relink"
			}
		}
		e.Race = g.pct(50)
	}
	if len(e.Writes) == 0 && e.CmdLine == "" && e.CancelAt == 0 && g.pct(25) {
		e.WatchFlags = true
	}
	sc.Ez = e
	switch g.r.IntN(5) {
	case 0:
		sc.Bias.Sticky = g.in(30, 90)
	case 1:
		sc.Bias.Starve = []string{"ez", "writer", "dials.go", "file.go"}[g.r.IntN(4)]
		sc.Bias.StarveTill = g.in(20, 300)
	}
	return sc
}

// genEzC09: an ez scenario for C09 - a watching flag source of the
// application's own, no writer; half of them without a config file.
func genEzC09(seed uint64, faulty bool) *Scenario {
	sc := genEz(seed, faulty)
	sc.Prop = "C09"
	e := sc.Ez
	e.CancelAt = 0
	e.WatchFlags, e.Writes, e.WriteHow, e.Race, e.CmdLine = true, nil, nil, false, ""
	if seed%2 == 0 {
		e.PathFrom, e.DecoyFrom = "none", ""
	}
	delete(e.Flags.Leaves, "ez_forbidden")
	return sc
}

func (p *EzPart) render(format string, kebab ...bool) []byte {
	out := p.renderRaw(format)
	if len(kebab) > 0 && kebab[0] && !p.Broken {
		// keys only: values never contain "ez_"
		out = []byte(strings.ReplaceAll(string(out), "ez_", "ez-"))
		out = []byte(strings.ReplaceAll(string(out), "ez-b_old", "ez-b-old"))
	}
	return out
}

func (p *EzPart) renderRaw(format string) []byte {
	if p.Broken {
		return []byte(map[string]string{"json": `{"ez_a": `, "yaml": "ez_a: [1, 2\n", "toml": "ez_a = = 1\n", "cue": "ez_a: {{{\n"}[format])
	}
	if p.Empty != "" {
		if format == "json" { // the JSON document that sets nothing
			return []byte(map[string]string{"blank": "{}", "comments": "{\n}\n", "whitespace": " \n{ }\n\n"}[p.Empty])
		}
		switch p.Empty {
		case "comments":
			c := "#"
			if format == "cue" {
				c = "//"
			}
			return []byte(c + " sample configuration; uncomment what you need\n" + c + " ez_a: 12\n" + c + " ez_name: \"x\"\n")
		case "whitespace":
			return []byte("\n  \n\n")
		}
		return []byte{}
	}
	keys := make([]string, 0, len(p.Leaves))
	for k := range p.Leaves {
		keys = append(keys, k)
	}
	sort.Strings(keys)
	var b strings.Builder
	q := func(k, v string) string {
		switch {
		case ezStringLeaf(k):
			return strconv.Quote(v)
		case k == "ez_set":
			if v == "" {
				return "[]"
			}
			parts := strings.Split(v, "|")
			for i := range parts {
				parts[i] = strconv.Quote(parts[i])
			}
			return "[" + strings.Join(parts, ", ") + "]"
		}
		return v
	}
	// sections: a key with dots is a leaf inside nested sections
	var level func(prefix string, depth int)
	level = func(prefix string, depth int) {
		var heads []string
		seen := map[string]bool{}
		for _, k := range keys {
			if !strings.HasPrefix(k, prefix) {
				continue
			}
			head, _, _ := strings.Cut(k[len(prefix):], ".")
			if !seen[head] {
				seen[head] = true
				heads = append(heads, head)
			}
		}
		for i, head := range heads {
			full := prefix + head
			_, isLeaf := p.Leaves[full]
			ind := strings.Repeat("  ", depth)
			switch format {
			case "json":
				if i > 0 || depth == 0 {
					b.WriteString(", ")
				}
				if isLeaf {
					fmt.Fprintf(&b, "%q: %s", head, q(full, p.Leaves[full]))
				} else {
					fmt.Fprintf(&b, "%q: {", head)
					level(full+".", depth+1)
					b.WriteString("}")
				}
			case "cue": // keys quoted: a kebab-case key is not a Cue identifier
				if isLeaf {
					fmt.Fprintf(&b, "%s%q: %s\n", ind, head, q(full, p.Leaves[full]))
				} else {
					fmt.Fprintf(&b, "%s%q: {\n", ind, head)
					level(full+".", depth+1)
					fmt.Fprintf(&b, "%s}\n", ind)
				}
			default: // yaml
				if isLeaf {
					fmt.Fprintf(&b, "%s%s: %s\n", ind, head, q(full, p.Leaves[full]))
				} else {
					fmt.Fprintf(&b, "%s%s:\n", ind, head)
					level(full+".", depth+1)
				}
			}
		}
	}
	switch format {
	case "json":
		b.WriteString("{")
		fmt.Fprintf(&b, `"ez_stamp": %d`, p.ID)
		level("", 0)
		b.WriteString("}")
	case "toml": // dotted keys
		fmt.Fprintf(&b, "ez_stamp = %d\n", p.ID)
		for _, k := range keys {
			fmt.Fprintf(&b, "%s = %s\n", k, q(k, p.Leaves[k]))
		}
	case "cue":
		fmt.Fprintf(&b, "\"ez_stamp\": %d\n", p.ID)
		level("", 0)
	default: // yaml
		fmt.Fprintf(&b, "ez_stamp: %d\n", p.ID)
		level("", 0)
	}
	return []byte(b.String())
}

type ezRun struct {
	sc         *Scenario
	e          *EzSpec
	sim        *simrt.Sim
	ctx        context.Context
	cancel     context.CancelFunc
	root       string
	path       string
	decoy      string
	d          *dials.Dials[CfgEz]
	err        error
	returned   int
	started    int
	verifies   []ezVerify
	viol       []Violation
	probes     map[string]int
	cbs        []*ezCB
	events     []*CfgEz
	contents   map[uint64]*EzPart
	written    []uint64 // file part ids in the order they were (fully) written
	lastChange int
	done       int
	clients    int
	first      *CfgEz
	firstTaken bool
	rendered   map[string]bool // every complete content that was ever written
	wflags     *ezWatchFlags
	flagOK     []string // values of ez_c whose update was acknowledged: OnNewConfig is owed for each
	flagErrs   []string // error texts OnWatchedError is owed
	tornAt     int      // step of the first read that obtained bytes no writer wrote as a whole (0: none)
}

type ezCB struct {
	kind     string
	enter    int
	old, new *CfgEz
	err      error
}

func (r *ezRun) fail(oracle, format string, a ...any) {
	if len(r.viol) < 20 {
		r.viol = append(r.viol, Violation{Oracle: oracle, Msg: fmt.Sprintf(format, a...)})
	}
}

func applyLeaves(c *CfgEz, p *EzPart) {
	for k, v := range p.Leaves {
		n, _ := strconv.Atoi(v)
		switch k {
		case "ez_a":
			c.A = n
		case "ez_b", "ez_b_old":
			c.B = n
		case "ez_set":
			c.Set = map[string]struct{}{}
			for _, x := range strings.Split(v, "|") {
				if v != "" {
					c.Set[x] = struct{}{}
				}
			}
		case "ez_emb", "ezemb.ez_emb":
			c.Emb = n
		case "ez_c":
			c.C = n
		case "ez_name":
			c.Name = v
		case "ez_db.host":
			c.DB.Host = v
		case "ez_db.port":
			c.DB.Port = n
		case "ez_db.tls.cert":
			c.DB.TLS.Cert = v
		case "ez_db.tls.min":
			c.DB.TLS.Min = n
		case "ez_db.extra":
			c.DB.Extra = n
		case "ez_lo":
			c.Lo = n
		case "ez_hi":
			c.Hi = n
		case "ez_forbidden":
			c.Forbidden = v == "true"
		}
	}
}

// expected is the four-layer precedence model: defaults < file < env < flags.
func (r *ezRun) expected(file *EzPart) *CfgEz {
	c := &CfgEz{}
	applyLeaves(c, &r.e.Defaults)
	c.Path = r.pathOf("default")
	if file != nil && file.Empty == "" {
		c.Stamp = file.ID
		applyLeaves(c, file)
	}
	applyLeaves(c, &r.e.Env)
	if p := r.pathOf("env"); p != "" {
		c.Path = p
	}
	applyLeaves(c, &r.e.Flags)
	if p := r.pathOf("flag"); p != "" {
		c.Path = p
	}
	return c
}

func (r *ezRun) pathOf(layer string) string {
	switch layer {
	case r.e.PathFrom:
		return r.path
	case r.e.DecoyFrom:
		return r.decoy
	}
	return ""
}

func (r *ezRun) defaults() *CfgEz {
	c := &CfgEz{}
	applyLeaves(c, &r.e.Defaults)
	c.Path = r.pathOf("default")
	return c
}

var ezEnvNames = map[string]string{"ez_db.host": "EZ_DB_HOST", "ez_db.port": "EZ_DB_PORT", "ez_db.tls.cert": "EZ_DB_TLS_CERT", "ez_db.tls.min": "EZ_DB_TLS_MIN", "ez_db.extra": "EZ_DB_EXTRA", "ez_a": "EZ_A", "ez_b": "EZ_B", "ez_c": "EZ_C", "ez_name": "EZ_NAME", "ez_lo": "EZ_LO", "ez_hi": "EZ_HI", "ez_forbidden": "EZ_FORBIDDEN"}

func (r *ezRun) setEnv() func() {
	var names []string
	set := func(k, v string) { os.Setenv(k, v); names = append(names, k) }
	for k, v := range r.e.Env.Leaves {
		set(ezEnvNames[k], v)
	}
	if p := r.pathOf("env"); p != "" {
		set("EZ_PATH", p)
	}
	return func() {
		for _, n := range names {
			os.Unsetenv(n)
		}
	}
}

func (r *ezRun) flagArgs() []string {
	var args []string
	keys := make([]string, 0)
	for k := range r.e.Flags.Leaves {
		keys = append(keys, k)
	}
	sort.Strings(keys)
	for _, k := range keys {
		args = append(args, "--"+strings.ReplaceAll(k, ".", "-")+"="+r.e.Flags.Leaves[k])
	}
	if p := r.pathOf("flag"); p != "" {
		args = append(args, "--ez_path="+p)
	}
	return args
}

func runEz(sc *Scenario, res *Result, keepLog bool) {
	e := sc.Ez
	if e.WatchFlags {
		// the flags layer changes during the run: the model works on a copy
		ec := *e
		ec.Flags.Leaves = map[string]string{}
		for k, v := range e.Flags.Leaves {
			ec.Flags.Leaves[k] = v
		}
		e = &ec
	}
	r := &ezRun{sc: sc, e: e, probes: map[string]int{}, contents: map[uint64]*EzPart{}}
	curEz = r
	defer func() { curEz = nil }()
	s := simrt.New(sc.Seed, sc.Choices)
	defer s.Close()
	r.sim = s
	s.Record, s.KeepLog, s.Bias = true, keepLog, sc.Bias
	r.ctx, r.cancel = context.WithCancel(context.Background())
	r.root = fileRoot()
	wdir := "w"
	if e.EqPath {
		wdir = "env=w" // the config path itself has '=' in it
	}
	defer os.RemoveAll(r.root)
	must(os.MkdirAll(filepath.Join(r.root, wdir), 0755))
	must(os.MkdirAll(filepath.Join(r.root, "decoy"), 0755))
	r.path = filepath.Join(r.root, wdir, "cfg."+e.Format)
	r.decoy = filepath.Join(r.root, "decoy", "cfg."+e.Format)
	r.contents[e.File.ID] = &e.File
	r.contents[e.Decoy.ID] = &e.Decoy
	if e.FileState == "ok" {
		if e.Linked {
			must(os.MkdirAll(filepath.Join(r.root, wdir, "store"), 0755))
			must(os.WriteFile(filepath.Join(r.root, wdir, "store", "v0.data"), e.File.render(e.Format, e.Kebab), 0644))
			must(os.Symlink(filepath.Join("store", "v0.data"), r.path))
		} else {
			must(os.WriteFile(r.path, e.File.render(e.Format, e.Kebab), 0644))
		}
		r.written = append(r.written, e.File.ID)
	}
	must(os.WriteFile(r.decoy, e.Decoy.render(e.Format, e.Kebab), 0644))
	unset := r.setEnv()
	defer unset()
	r.rendered = map[string]bool{string(e.Decoy.render(e.Format, e.Kebab)): true}
	if e.FileState == "ok" {
		// (a file that is missing was never written: reading its - possibly
		// empty - content can only be a torn read of something else)
		r.rendered[string(e.File.render(e.Format, e.Kebab))] = true
	}
	for i := range e.Writes {
		r.rendered[string(e.Writes[i].render(e.Format, e.Kebab))] = true
	}
	simrt.OnFileRead(func(rr simrt.ReadRecord) {
		if rr.Err == "" && !r.rendered[string(rr.Data)] && r.tornAt == 0 {
			r.tornAt = rr.Step
			r.probes["torn-read"]++
		}
	})
	defer simrt.OnFileRead(nil)

	params := ez.Params[CfgEz]{
		WatchConfigFile: e.Watch,
		OnNewConfig: func(_ context.Context, o, n *CfgEz) {
			r.cbs = append(r.cbs, &ezCB{kind: "new", enter: s.Step(), old: o, new: n})
		},
		OnWatchedError: func(_ context.Context, err error, o, n *CfgEz) {
			r.cbs = append(r.cbs, &ezCB{kind: "err", enter: s.Step(), old: o, new: n, err: err})
		},
	}
	params.FlattenAnonymousFields = e.Flatten
	if e.Kebab {
		params.DialsTagNameDecoder = caseconversion.DecodeLowerSnakeCase
		params.FileFieldNameEncoder = caseconversion.EncodeKebabCase
	}
	r.clients++
	s.Spawn("ez", func() {
		defer func() { r.done++ }()
		if e.CmdLine == "" {
			fs, ferr := flag.NewSetWithArgs(flag.DefaultFlagNameConfig(), r.defaults(), r.flagArgs())
			if ferr != nil {
				panic(ferr)
			}
			params.FlagSource = fs
			if e.WatchFlags {
				r.wflags = &ezWatchFlags{inner: fs}
				params.FlagSource = r.wflags
			}
		} else {
			// the default flag source: the process's command line. (A private,
			// unparsed CommandLine and os.Args for this run; restored afterwards.)
			oldCL, oldArgs := goflag.CommandLine, os.Args
			defer func() { goflag.CommandLine, os.Args = oldCL, oldArgs }()
			goflag.CommandLine = goflag.NewFlagSet("sim", goflag.ContinueOnError)
			os.Args = append([]string{"sim"}, r.flagArgs()...)
			if e.CmdLine == "prereg" {
				// "if the flag already exists, don't register so the user can override our behavior"
				goflag.CommandLine.Int("ez_a", 0, "registered by the application itself")
				r.probes["flag-registered-by-the-application"]++
			}
			r.probes["default-command-line-flag-source"]++
		}
		r.started = s.Step()
		switch {
		case e.Entry == "direct" && e.Format == "json":
			r.d, r.err = ez.JSONConfigEnvFlag(r.ctx, r.defaults(), params)
		case e.Entry == "direct" && e.Format == "yaml":
			r.d, r.err = ez.YAMLConfigEnvFlag(r.ctx, r.defaults(), params)
		case e.Entry == "direct" && e.Format == "toml":
			r.d, r.err = ez.TOMLConfigEnvFlag(r.ctx, r.defaults(), params)
		case e.Entry == "direct" && e.Format == "cue":
			r.d, r.err = ez.CueConfigEnvFlag(r.ctx, r.defaults(), params)
		default:
			r.d, r.err = ez.FileExtensionDecoderConfigEnvFlag(r.ctx, r.defaults(), params)
		}
		r.returned = s.Step()
		if r.d != nil {
			r.first = r.d.View()
		}
		r.firstTaken = true
		if r.d != nil {
			// a consumer of Events
			for i := 0; i < 6; i++ {
				simrt.Sleep(700 * time.Millisecond)
				select {
				case c := <-r.d.Events():
					r.events = append(r.events, c)
				default:
				}
			}
		}
	})
	if e.CancelAt > 0 {
		r.clients++
		s.Spawn("canceller", func() {
			defer func() { r.done++ }()
			for i := 0; i < e.CancelAt; i++ {
				simrt.Yield("cancel-wait")
			}
			r.cancel() // SIGTERM, a start-up deadline: the service is still starting
		})
	}
	if e.WatchFlags {
		r.clients++
		s.Spawn("flagwatch", func() {
			defer func() { r.done++ }()
			simrt.YieldWhen("await-ez-return", func() bool { return r.firstTaken })
			r.flagUpdates()
		})
	}
	if len(e.Writes) > 0 {
		r.clients++
		s.Spawn("writer", func() {
			defer func() { r.done++ }()
			if !e.Race {
				simrt.YieldWhen("await-ez-return", func() bool { return r.firstTaken })
			}
			for i := range e.Writes {
				p := &e.Writes[i]
				r.contents[p.ID] = p
				content := p.render(e.Format, e.Kebab)
				switch e.WriteHow[i] {
				case "rename":
					os.WriteFile(r.path+".tmp", content, 0644)
					simrt.Yield("w.tmp")
					os.Rename(r.path+".tmp", r.path)
				case "relink":
					tgt := filepath.Join("store", fmt.Sprintf("v%d.data", i+1))
					os.WriteFile(filepath.Join(r.root, wdir, tgt), content, 0644)
					simrt.Yield("w.target")
					os.Remove(r.path + ".lnk")
					os.Symlink(tgt, r.path+".lnk")
					simrt.Yield("w.link")
					os.Rename(r.path+".lnk", r.path)
					r.probes["config-symlink-repointed"]++
				case "delete-create":
					os.Remove(r.path)
					simrt.Yield("w.deleted")
					os.WriteFile(r.path, content, 0644)
				default:
					fh, err := os.OpenFile(r.path, os.O_WRONLY|os.O_TRUNC|os.O_CREATE, 0644)
					if err != nil {
						continue
					}
					simrt.Yield("w.truncated")
					fh.Write(content[:len(content)/2])
					simrt.Yield("w.half")
					fh.Write(content[len(content)/2:])
					fh.Close()
				}
				r.written = append(r.written, p.ID)
				r.lastChange = s.Step()
				simrt.Yield("w.done")
				if i%2 == 1 {
					simrt.Sleep(time.Duration(500+i*300) * time.Millisecond)
				}
			}
		})
	}
	reason := s.Run(sc.MaxSteps, func() bool { return r.done >= r.clients }, time.Time{})
	settle := s.Run(sc.MaxSteps, nil, time.Now().Add(settleHorizon))
	res.Reason = string(reason) + "/" + string(settle)
	for _, c := range s.Crashes {
		r.fail("crash", "task %s panicked at step %d: %s\n%s", c.Task, c.Step, c.Value, c.Stack)
	}
	s.Crashes = nil
	if reason != simrt.Done {
		var lines []string
		for _, t := range s.Tasks() {
			if t.State != simrt.Exited {
				lines = append(lines, fmt.Sprintf("%s: %s at %q", t.Name, t.State, t.Label))
			}
		}
		r.fail("stuck", "the entry point or the writer did not finish (%s)\n%s", reason, strings.Join(lines, "\n"))
	} else {
		if e.CancelAt == 0 {
			r.flagOracles()
		}
		r.oracles()
	}
	r.cancel()
	s.Run(20000, nil, time.Now().Add(settleHorizon))
	for _, t := range s.Tasks() {
		if t.Lib && t.State != simrt.Exited {
			r.fail("C18.leak", "library goroutine %s still %s at %q after cancel", t.Name, t.State, t.Label)
		}
	}
	if c := s.Counters; c["inotify-opened"] != c["inotify-closed"] {
		r.fail("C18.leak", "%d inotify descriptors opened, %d closed", c["inotify-opened"], c["inotify-closed"])
	}
	res.Viol = r.viol
	res.Hash, res.Steps, res.NChoices, res.SimNS, res.States = s.Hash(), s.Step(), s.Choices(), int64(s.Elapsed()), s.States
	for k, v := range r.probes {
		res.Probes[k] += v
	}
	res.Made = make([]int, len(s.Made))
	for i, c := range s.Made {
		res.Made[i] = c.V
	}
	res.Log = s.Log
}

// ezWatchFlags is a flag source of the application's own that also watches:
// it hands out what the wrapped flag set parsed and can report new values later.
type ezWatchFlags struct {
	inner *flag.Set
	wa    dials.WatchArgs
	typ   *dials.Type
}

func (w *ezWatchFlags) Value(ctx context.Context, t *dials.Type) (reflect.Value, error) {
	return w.inner.Value(ctx, t)
}

func (w *ezWatchFlags) Watch(_ context.Context, t *dials.Type, wa dials.WatchArgs) error {
	w.wa, w.typ = wa, t
	return nil
}

// flagUpdates runs once the entry point has returned a Dials: from then on
// verification is on and the global callbacks are delivered, whichever way
// the entry point went (with or without a config file).
func (r *ezRun) flagUpdates() {
	if r.d == nil || r.wflags == nil || r.wflags.wa == nil {
		return
	}
	P := r.sc.Prop
	w := r.wflags
	value := func(extra ...string) reflect.Value {
		fs, err := flag.NewSetWithArgs(flag.DefaultFlagNameConfig(), r.defaults(), append(r.flagArgs(), extra...))
		if err != nil {
			panic(err)
		}
		v, err := fs.Value(r.ctx, w.typ)
		if err != nil {
			panic(err)
		}
		return v
	}
	report := func(v reflect.Value) error {
		ctx, cancel := context.WithTimeout(r.ctx, time.Hour)
		defer cancel()
		return w.wa.BlockingReportNewValue(ctx, v)
	}
	// 1. a valid update
	c1 := strconv.Itoa(900000 + int(r.sc.Seed%1000))
	if err := report(value("--ez_c=" + c1)); err != nil {
		r.fail(P+".ez-update", "after the entry point returned, a valid update from the watching flag source was refused: %v", err)
	} else {
		r.e.Flags.Leaves["ez_c"] = c1
		r.flagOK = append(r.flagOK, c1)
		if got := r.d.View().C; strconv.Itoa(got) != c1 {
			r.fail(P+".ez-update", "a blocking report of the flag source returned nil but the view has ez_c=%d, not %s", got, c1)
		}
	}
	r.probes["flag-source-update-after-return"]++
	// 2. an update Verify rejects: verification is on after every successful return
	before := r.d.View()
	err := report(value("--ez_c=1", "--ez_forbidden=true"))
	switch {
	case err == nil:
		r.fail(P+".ez-verification-on", "the entry point returned successfully, yet an update that Verify rejects was acknowledged and installed: verification was never switched on (view %+v)", *r.d.View())
	case !errors.Is(err, errVerify):
		r.fail(P+".ez-verification-on", "an update that Verify rejects came back with %v", err)
	default:
		r.flagErrs = append(r.flagErrs, "forbidden=true")
		if r.d.View() != before {
			r.fail(P+".ez-verification-on", "a rejected update changed the view")
		}
	}
	r.probes["flag-source-invalid-update-after-return"]++
	// 3. an error of the source
	tag := fmt.Sprintf("flag-source-error-%d", r.sc.Seed%1000)
	ctx, cancel := context.WithTimeout(r.ctx, time.Hour)
	if err := w.wa.ReportError(ctx, errors.New(tag)); err == nil {
		r.flagErrs = append(r.flagErrs, tag)
	}
	cancel()
	// 4. EnableVerification by the application itself: already on, returns what is installed
	ctx, cancel = context.WithTimeout(r.ctx, time.Hour)
	cfg, _, eerr := r.d.EnableVerification(ctx)
	cancel()
	if eerr != nil {
		r.fail(P+".ez-verification-on", "EnableVerification after the entry point returned failed although the installed config verifies: %v", eerr)
	} else if cfg != nil && cfg != r.d.View() {
		r.fail(P+".ez-verification-on", "EnableVerification returned a config that is not the installed one")
	}
	// 5. valid again (the rejected value leaves the slot)
	c2 := strconv.Itoa(910000 + int(r.sc.Seed%1000))
	if err := report(value("--ez_c=" + c2)); err != nil {
		r.fail(P+".ez-update", "a valid update after a rejected one was refused: %v", err)
	} else {
		r.e.Flags.Leaves["ez_c"] = c2
		r.flagOK = append(r.flagOK, c2)
	}
}

// flagOracles: evaluated once the run has settled (the callbacks are asynchronous).
func (r *ezRun) flagOracles() {
	P := r.sc.Prop
	for _, c := range r.flagOK {
		found := false
		for _, cb := range r.cbs {
			if cb.kind == "new" && cb.new != nil && strconv.Itoa(cb.new.C) == c {
				found = true
			}
		}
		if !found {
			r.fail(P+".ez-callbacks", "OnNewConfig was never called for the version with ez_c=%s, installed after the entry point had returned (global callbacks are withheld only until verification is enabled)", c)
		}
	}
	for _, tag := range r.flagErrs {
		found := false
		for _, cb := range r.cbs {
			if cb.kind == "err" && cb.err != nil && (strings.Contains(cb.err.Error(), tag) || tag == "forbidden=true" && errors.Is(cb.err, errVerify)) {
				found = true
			}
		}
		if !found {
			r.fail(P+".ez-callbacks", "OnWatchedError was never called for %q after the entry point had returned", tag)
		}
	}
}

func ezEqual(a, b *CfgEz) bool { return reflect.DeepEqual(*a, *b) }

// plausible: the ids of file contents that were at the path at some point of
// the call (all of them when the writer raced; only the initial one otherwise).
func (r *ezRun) plausibleFiles(untilStep int) []*EzPart {
	var out []*EzPart
	if r.e.FileState == "ok" {
		out = append(out, &r.e.File)
	}
	if r.e.Race || untilStep > r.returned {
		for i := range r.e.Writes {
			out = append(out, &r.e.Writes[i])
		}
	}
	return out
}

func (r *ezRun) oracles() {
	e := r.e
	if e.CancelAt > 0 {
		// the context ended while the entry point was at work: whatever it
		// returned, it has returned (a call that never does is reported as
		// stuck), and nothing is left behind (checked after the run)
		r.probes["context-cancelled-during-start-up"]++
		return
	}
	// what the entry point returned is judged by the flags it was started
	// with; what is visible in the end by the flags reported last
	flagsNow := e.Flags
	e.Flags = r.sc.Ez.Flags
	defer func() { e.Flags = flagsNow }()
	hasPath := e.PathFrom != "none"
	r.probes["path-from-"+e.PathFrom]++
	// a file that sets nothing carries no stamp: in runs that have one, the
	// full stack over it and the file-less intermediate look alike, and the
	// clauses that tell them apart by the stamp are off
	stamped := hasPath && e.File.Empty == ""
	for i := range e.Writes {
		if e.Writes[i].Empty != "" {
			stamped = false
		}
	}
	if hasPath && !stamped {
		r.probes["config-file-that-sets-nothing"]++
	}
	if e.DecoyFrom != "" {
		r.probes["lower-layer-names-another-file"]++
	}
	// (b) Verify never sees the file-less intermediate
	// (a read that raced an in-place rewrite may obtain a document - e.g. an
	// empty one - that no writer wrote; from then on stamp 0 proves nothing)
	untorn := func(step int) bool { return r.tornAt == 0 || step < r.tornAt }
	for _, v := range r.verifies {
		if stamped && v.stamp == 0 && untorn(v.step) {
			r.fail("C18.verify-partial", "Verify ran at step %d on a config without the file's contents (stamp 0) although a config file is configured", v.step)
		}
	}
	// (d) neither Events nor the global callbacks expose the intermediate
	for _, c := range r.events {
		if stamped && c.Stamp == 0 && r.tornAt == 0 {
			r.fail("C18.intermediate-exposed", "Events() delivered a config without the file's contents")
		}
	}
	for _, cb := range r.cbs {
		if cb.kind != "new" {
			continue
		}
		if stamped && untorn(cb.enter) && (cb.new.Stamp == 0 || cb.old == nil || cb.old.Stamp == 0) {
			r.fail("C18.intermediate-exposed", "OnNewConfig was called with the file-less intermediate config (old stamp %v, new stamp %d)", cb.old, cb.new.Stamp)
		}
		if cb.enter < r.returned && !e.Race {
			r.fail("C18.intermediate-exposed", "OnNewConfig was called at step %d, before the entry point returned (step %d), although the file did not change", cb.enter, r.returned)
		}
	}
	// (a)/(c) outcome of the entry point
	raced := e.Race && len(e.Writes) > 0
	if !hasPath {
		want := r.expected(nil)
		switch {
		case !validEz(want):
			if r.err == nil || !errors.Is(r.err, errVerify) {
				r.fail("C18.verify-error", "the stacked config does not verify but the entry point returned %v", r.err)
			}
		case r.err != nil:
			r.fail("C18.first-config", "no config file is configured and the stack verifies, but the entry point failed: %v", r.err)
		case !ezEqual(r.first, want):
			r.fail("C18.first-config", "first config differs from defaults < env < flags\n got:  %+v\n want: %+v", *r.first, *want)
		}
		r.probes["no-file-path"]++
		return
	}
	if r.err != nil {
		if r.d != nil {
			r.fail("C18.first-config", "the entry point returned both a Dials and an error")
		}
		// an error is right when the file was missing, malformed, or the full stack does not verify
		ok := false
		for _, f := range r.plausibleFiles(r.returned) {
			if f.Broken || !validEz(r.expected(f)) {
				ok = true
			}
		}
		if e.FileState == "missing" || raced && contains(e.WriteHow, "delete-create") || raced && contains(e.WriteHow, "rewrite") {
			ok = true // the file was absent or half-written at some point of the call
		}
		if !ok {
			r.fail("C18.first-config", "the file is present and well-formed and the full stack verifies, but the entry point failed: %v", r.err)
		}
		r.probes["entry-point-error"]++
		return
	}
	// success: the first visible config must be the model over some content that was at the path
	first := r.first
	matched := false
	cands := r.plausibleFiles(r.returned)
	for _, f := range cands {
		if !f.Broken && ezEqual(first, r.expected(f)) {
			matched = true
		}
	}
	tornFirst := r.tornAt != 0 && r.tornAt <= r.returned
	if tornFirst {
		r.probes["initial-read-was-torn"]++
	}
	if !matched && !tornFirst {
		r.fail("C18.first-config", "the config visible after the entry point returned is not defaults < file < env < flags for any content the file had\n got: %+v\n want (initial file): %+v", *first, *r.expected(&e.File))
	}
	// whatever raced the entry point: once it has returned successfully,
	// verification is on and what is visible has passed Verify
	if !validEz(first) && !tornFirst {
		r.fail("C18.verify-error", "the entry point succeeded but the config visible when it returned does not verify: %+v", *first)
	}
	if v := r.d.View(); !validEz(v) && r.tornAt == 0 {
		r.fail("C18.verify-error", "after the entry point returned a config that does not verify became visible: %+v", *v)
	}
	if e.FileState == "missing" && !raced {
		r.fail("C18.first-config", "the config file is missing but the entry point succeeded")
	}
	if e.File.Broken && !raced {
		r.fail("C18.first-config", "the config file is malformed but the entry point succeeded")
	}
	if !raced && !validEz(r.expected(&e.File)) {
		r.fail("C18.verify-error", "the full stack does not verify but the entry point succeeded")
	}
	// the returned config was verified before return
	verified := false
	for _, v := range r.verifies {
		if !v.failed && v.step <= r.returned && (v.stamp != 0 || !stamped) {
			verified = true
		}
	}
	if !verified && !tornFirst {
		r.fail("C18.verify-partial", "the entry point returned without a successful Verify of the full stack")
	}
	if validEz(r.expected(nil)) == false && validEz(first) {
		r.probes["valid-only-with-file"]++
	}
	// (e) later changes
	e.Flags = flagsNow
	if e.Watch && len(r.written) > 0 {
		last := r.contents[r.written[len(r.written)-1]]
		view := r.d.View()
		want := r.expected(last)
		if !last.Broken && validEz(want) {
			if !ezEqual(view, want) {
				r.fail("C18.convergence", "with file watching on, changes stopped at step %d and the run settled, but the view is not defaults < final file < env < flags\n got:  %+v\n want: %+v", r.lastChange, *view, *want)
			}
			r.probes["converged-after-change"]++
		} else {
			r.probes["final-content-invalid"]++
		}
	}
	if !e.Watch && !e.WatchFlags {
		// the monitor and the callback goroutine are gone once the entry point returned
		for _, t := range r.sim.Tasks() {
			if t.Lib && t.State != simrt.Exited {
				r.fail("C18.leak", "file watching is off but %s is still %s at %q after the entry point returned", t.Name, t.State, t.Label)
			}
		}
		r.probes["no-watch-goroutines-gone"]++
	}
}

func validEz(c *CfgEz) bool { return c.Lo <= c.Hi && !c.Forbidden }
