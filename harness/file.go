package main

import (
	"bytes"
	"context"
	yamldec "github.com/vimeo/dials/decoders/yaml"
	"reflect"
	"strconv"

	"encoding/json"
	"errors"
	"fmt"
	"github.com/vimeo/dials"
	"math/rand/v2"
	"os"
	"path/filepath"
	"sort"
	"strings"
	"syscall"
	"time"

	"simrt"

	jsondec "github.com/vimeo/dials/decoders/json"
	"github.com/vimeo/dials/sources/file"
	"github.com/vimeo/dials/sourcewrap"
	"github.com/vimeo/dials/transform"
)

// ---- C17: the watched config file (DESIGN §4 C17, §2.5) ----

type FileSpec struct {
	Unclean    int    `json:"unclean,omitempty"` // the path is handed to the source in a non-clean spelling (1: //, 2: /./, 3: /x/../)
	Format     string `json:"format,omitempty"`  // "" (JSON) | "yaml": a format in which a prefix of a document can be a document
	Layout     string `json:"layout"`            // plain | k8s
	PollMS     int    `json:"poll_ms,omitempty"`
	Reload     bool   `json:"reload,omitempty"`
	RaceConfig bool   `json:"race_config,omitempty"` // Config runs as a task, raced by the writer
	Picky      bool   `json:"picky,omitempty"`       // the file source sits behind a transforming source whose mangler refuses some decodable values ("broken" contents may be of that kind)
}

// pickyMangler passes every field through; its reverse step refuses strings
// that begin with "untranslatable" (as the alias mangler refuses a document
// that sets both the old and the new name of a field).
type pickyMangler struct{}

var errPicky = errors.New("harness: untranslatable value")

func (pickyMangler) Mangle(sf reflect.StructField) ([]reflect.StructField, error) {
	return []reflect.StructField{sf}, nil
}

func (pickyMangler) Unmangle(sf reflect.StructField, vs []transform.FieldValueTuple) (reflect.Value, error) {
	v := vs[0].Value
	if v.Kind() == reflect.Ptr && !v.IsNil() && v.Elem().Kind() == reflect.String && strings.HasPrefix(v.Elem().String(), "untranslatable") {
		return reflect.Value{}, fmt.Errorf("%w %q", errPicky, v.Elem().String())
	}
	return v, nil
}

func (pickyMangler) ShouldRecurse(reflect.StructField) bool { return false }

type fileState struct {
	cur        *Part // the part whose rendering was written last (nil: unknown)
	spec       *FileSpec
	root       string // per-run directory on tmpfs
	dir        string // directory holding the config path
	path       string
	tsN        int
	reload     chan os.Signal
	known      map[string]uint64 // content bytes -> part id
	lastChange int               // step of the last content-changing system call
	lastOpAt   int               // step at which the writer's last operation began
	src        *file.WatchingSource
	idx        int
}

var runCounter int

func fileRoot() string {
	runCounter++
	return fmt.Sprintf("/dev/shm/simfs-%d/%d", os.Getpid(), runCounter)
}

// partJSON renders a part as the JSON document a file source reads.
func partJSON(p *Part, owner int) []byte {
	m := map[string]any{}
	if p.ID != 0 {
		m[stampNames[owner]] = p.ID
	}
	if p.I != nil {
		m["I"] = *p.I
	}
	if p.S != nil {
		m["S"] = *p.S
	}
	if p.Dur != nil {
		if p.ID%2 == 0 {
			m["Dur"] = time.Duration(*p.Dur).String()
		} else {
			m["Dur"] = *p.Dur
		}
	}
	if p.F != nil {
		m["F"] = *p.F
	}
	if p.B != nil {
		m["B"] = *p.B
	}
	if p.Strs != nil {
		m["Strs"] = p.Strs
	}
	if p.M != nil {
		m["M"] = p.M
	}
	nest := map[string]any{}
	if p.NestS != nil {
		nest["S"] = *p.NestS
	}
	if p.NestN != nil {
		nest["N"] = *p.NestN
	}
	if len(nest) > 0 {
		m["Nest"] = nest
	}
	pn := map[string]any{}
	if p.PNS != nil {
		pn["S"] = *p.PNS
	}
	if p.PNN != nil {
		pn["N"] = *p.PNN
	}
	if len(pn) > 0 {
		m["PN"] = pn
	}
	if p.After != nil {
		m["After"] = *p.After
	}
	if p.Lo != nil {
		m["Lo"] = *p.Lo
	}
	if p.Hi != nil {
		m["Hi"] = *p.Hi
	}
	if p.Forbidden != nil {
		m["Forbidden"] = *p.Forbidden
	}
	b, err := json.Marshal(m)
	if err != nil {
		panic(err)
	}
	return b
}

// partYAML renders a part as a YAML document (keys are the lower-cased field
// names, as yaml.v3 maps untagged fields). The stamp comes last, without a
// trailing newline: appending digits and further lines to the file keeps the
// old bytes as a prefix and still gives a document - with another stamp.
func partYAML(p *Part, owner int) []byte {
	var b strings.Builder
	q := func(s string) string { return strconv.Quote(s) }
	if p.I != nil {
		fmt.Fprintf(&b, "i: %d\n", *p.I)
	}
	if p.S != nil {
		fmt.Fprintf(&b, "s: %s\n", q(*p.S))
	}
	if p.Dur != nil {
		fmt.Fprintf(&b, "dur: %s\n", q(time.Duration(*p.Dur).String()))
	}
	if p.F != nil {
		fmt.Fprintf(&b, "f: %s\n", strconv.FormatFloat(*p.F, 'f', -1, 64))
	}
	if p.B != nil {
		fmt.Fprintf(&b, "b: %v\n", *p.B)
	}
	if p.Strs != nil {
		l := make([]string, len(p.Strs))
		for i, x := range p.Strs {
			l[i] = q(x)
		}
		fmt.Fprintf(&b, "strs: [%s]\n", strings.Join(l, ", "))
	}
	if p.M != nil {
		keys := make([]string, 0, len(p.M))
		for k := range p.M {
			keys = append(keys, k)
		}
		sort.Strings(keys)
		l := make([]string, len(keys))
		for i, k := range keys {
			l[i] = fmt.Sprintf("%s: %d", q(k), p.M[k])
		}
		fmt.Fprintf(&b, "m: {%s}\n", strings.Join(l, ", "))
	}
	if p.NestS != nil || p.NestN != nil {
		b.WriteString("nest:\n")
		if p.NestS != nil {
			fmt.Fprintf(&b, "  s: %s\n", q(*p.NestS))
		}
		if p.NestN != nil {
			fmt.Fprintf(&b, "  n: %d\n", *p.NestN)
		}
	}
	if p.PNS != nil || p.PNN != nil {
		b.WriteString("pn:\n")
		if p.PNS != nil {
			fmt.Fprintf(&b, "  s: %s\n", q(*p.PNS))
		}
		if p.PNN != nil {
			fmt.Fprintf(&b, "  n: %d\n", *p.PNN)
		}
	}
	if p.After != nil {
		fmt.Fprintf(&b, "after: %d\n", *p.After)
	}
	if p.Lo != nil {
		fmt.Fprintf(&b, "lo: %d\n", *p.Lo)
	}
	if p.Hi != nil {
		fmt.Fprintf(&b, "hi: %d\n", *p.Hi)
	}
	if p.Forbidden != nil {
		fmt.Fprintf(&b, "forbidden: %v\n", *p.Forbidden)
	}
	fmt.Fprintf(&b, "%s: %d", strings.ToLower(stampNames[owner]), p.ID)
	return []byte(b.String())
}

// render: the document for a part in the run's file format.
func (fs *FileSpec) render(p *Part, owner int) []byte {
	if fs.Format == "yaml" {
		return partYAML(p, owner)
	}
	return partJSON(p, owner)
}

func (fs *FileSpec) decoder() dials.Decoder {
	if fs.Format == "yaml" {
		return &yamldec.Decoder{}
	}
	return &jsondec.Decoder{}
}

// filePart draws a part restricted to leaves a JSON document can express for CfgCore.
func (g *gen) filePart(pInvalid int) *Part {
	p := g.part(40, pInvalid, false)
	p.P, p.Set, p.NestX, p.EmbA, p.EmbS, p.Iface, p.BadIface, p.Share = nil, nil, nil, nil, nil, nil, false, false
	p.SM, p.MM, p.MA, p.Pairs = nil, nil, nil, nil
	p.KP, p.Sh = nil, nil
	p.Arr, p.When, p.Peers, p.PM = nil, nil, nil, nil
	p.PWhen, p.TU, p.Held = nil, nil, nil
	p.Chain = 0
	if p.NestS == nil && p.NestN == nil {
		p.NestS = nil
	}
	return p
}

func malformedYAML(id uint64) []byte {
	switch id % 4 {
	case 3:
		// well-formed, but a leaf's UnmarshalText fails with an error that wraps fs.ErrNotExist
		return []byte(fmt.Sprintf("tu: \"load:/nonexistent/cert-%d.pem\"\n", id))
	case 0:
		return []byte("i: [1, 2")
	case 1:
		return []byte(fmt.Sprintf("i: \"not-a-number-%d\"\n", id)) // ill-typed
	}
	return []byte("\t- ]] not yaml at all: [")
}

func malformed(id uint64) []byte {
	switch id % 5 {
	case 4:
		// well-formed, but a leaf's UnmarshalText fails with an error that wraps fs.ErrNotExist
		return []byte(fmt.Sprintf(`{"TU": "load:/nonexistent/cert-%d.pem"}`, id))
	case 0:
		return []byte(`{"I": `)
	case 1:
		return []byte(fmt.Sprintf(`{"S": "unterminated %d`, id))
	case 2:
		return []byte(fmt.Sprintf(`{"I": "not-a-number-%d"}`, id)) // ill-typed
	}
	return []byte("]]] not json at all")
}

func genFile(seed uint64, faulty bool) *Scenario {
	g := &gen{r: rand.New(rand.NewPCG(seed, 0x5eed5eed))}
	sc := &Scenario{Prop: "C17", Seed: seed, Faulty: faulty, GlobalCB: "instant", Shutdown: "cancel", MaxSteps: 30000}
	g.sc = sc
	fs := &FileSpec{Layout: "plain"}
	if g.pct(45) {
		fs.Layout = "k8s"
		if g.pct(30) {
			// what the Kubernetes AtomicWriter really does: the intermediate
			// symlink is called ..data and the old timestamped directory is
			// always removed after the swap
			fs.Layout = "k8sdata"
		}
	} else if g.pct(35) {
		// the path is (or becomes) a symlink that is re-pointed at files with
		// other names, in its own directory or in others
		fs.Layout = "link"
	}
	if g.pct(33) {
		fs.PollMS = g.in(1, 10) * 60000
	}
	fs.Reload = g.pct(20)
	fs.RaceConfig = g.pct(20)
	fs.Picky = g.pct(15)
	if fs.Layout == "plain" && g.pct(35) {
		fs.Format = "yaml"
	}
	if g.pct(15) {
		fs.Unclean = g.in(1, 3)
	}
	sc.File = fs
	pInvalid := 0
	if faulty {
		pInvalid = 30
	}
	d := g.part(40, 0, false)
	d.ID = 0
	d.Iface, d.P = nil, nil
	d.Lo, d.Hi = ip(0), ip(5)
	sc.Defaults = *d
	// sources: the file alone, or stacked with a static and a sim watcher
	kinds := []string{"file"}
	if g.pct(50) {
		kinds = append(kinds, "static")
	}
	if g.pct(50) {
		kinds = append(kinds, "watch")
	}
	g.r.Shuffle(len(kinds), func(a, b int) { kinds[a], kinds[b] = kinds[b], kinds[a] })
	fileIdx := 0
	for i, k := range kinds {
		s := SourceSpec{Kind: k}
		switch k {
		case "file":
			fileIdx = i
			s.Init = g.filePart(0)
		default:
			s.Init = g.part(30, 0, false)
		}
		sc.Sources = append(sc.Sources, s)
		if k == "watch" {
			c := ClientSpec{Name: fmt.Sprintf("rep%d.0", i), Kind: "reporter", Src: i}
			for o, n := 0, g.in(1, 4); o < n; o++ {
				if g.pct(30) {
					c.Ops = append(c.Ops, Op{K: "sleep", D: int64(g.in(1, 2000)) * 1e6})
				} else {
					c.Ops = append(c.Ops, Op{K: "report", Part: g.part(30, pInvalid/2, false)})
				}
			}
			sc.Clients = append(sc.Clients, c)
		}
	}
	w := ClientSpec{Name: "writer", Kind: "writer", Src: fileIdx}
	nops := g.in(1, 6)
	if g.r.IntN(12) == 0 {
		nops = g.in(10, 40)
	}
	for o := 0; o < nops; o++ {
		op := g.writerOp(fs, pInvalid)
		w.Ops = append(w.Ops, op)
		if op.K == "k8s-swap" && g.pct(40) {
			// a rewrite through the path right behind a swap: lands around the
			// moment the watcher moves its directory watch
			rw := Op{K: "rewrite", Part: g.filePart(pInvalid), N: g.in(0, 3)}
			if pInvalid > 0 && g.pct(25) {
				rw.Str = "malformed"
			}
			w.Ops = append(w.Ops, rw)
			continue
		}
		switch g.r.IntN(6) {
		case 0:
			w.Ops = append(w.Ops, Op{K: "sleep", D: int64(g.in(1, 5000)) * 1e6})
		case 1:
			w.Ops = append(w.Ops, Op{K: "sleep", D: int64(g.in(1, 20)) * 60e9})
		case 2:
			w.Ops = append(w.Ops, Op{K: "await-read"})
		case 3:
			w.Ops = append(w.Ops, Op{K: "quiesce", D: int64(g.in(1, 20)) * 60e9})
		}
	}
	if strings.HasPrefix(fs.Layout, "k8s") && g.pct(45) {
		// end with a swap immediately followed by a short rewrite through the path
		sw := Op{K: "k8s-swap", Part: g.filePart(pInvalid), N: g.in(0, 2) / 2}
		if g.pct(35) {
			sw.Part, sw.Str = nil, "same"
		}
		// (a long pause first: the watcher has drained every earlier event, so the
		// swap is followed by exactly one reload)
		w.Ops = append(w.Ops, Op{K: "quiesce", D: int64(g.in(2, 30)) * 60e9}, sw)
		switch g.r.IntN(4) {
		case 0:
			w.Ops = append(w.Ops, Op{K: "sleep", D: int64(g.in(1, 5000)) * 1e6})
		case 1, 2:
			w.Ops = append(w.Ops, Op{K: "await-read"})
		}
		last := Op{K: "rewrite", Part: g.filePart(0), N: g.in(0, 1)}
		if pInvalid > 0 && g.pct(30) {
			last.Str = "malformed" // the final content is broken: the error must be reported
		}
		w.Ops = append(w.Ops, last)
	}
	if pInvalid > 0 && fs.Layout != "link" && g.pct(15) {
		// end with: good, broken, the very same good bytes again, the very same
		// broken bytes again - the last breakage must be reported like the first
		good, bad := g.filePart(0), g.filePart(0)
		how := "rename"
		if strings.HasPrefix(fs.Layout, "k8s") {
			how = "k8s-swap"
		}
		w.Ops = append(w.Ops, Op{K: "quiesce", D: int64(g.in(2, 30)) * 60e9})
		for i := 0; i < 2; i++ {
			w.Ops = append(w.Ops, Op{K: how, Part: good, N: 1}, Op{K: "await-read"}, Op{K: "quiesce", D: 60e9},
				Op{K: how, Part: bad, Str: "malformed", N: 1}, Op{K: "await-read"}, Op{K: "quiesce", D: 60e9})
		}
	}
	if fs.Layout == "plain" && g.pct(25) {
		// end with: new content, then - right behind the watcher's read of it -
		// delete and recreate the very same bytes
		w.Ops = append(w.Ops, Op{K: "quiesce", D: int64(g.in(2, 30)) * 60e9},
			Op{K: []string{"rename", "rewrite"}[g.r.IntN(2)], Part: g.filePart(0), N: 0},
			Op{K: "await-read"},
			Op{K: "delete-create", Str: "same", N: g.in(0, 1)})
	}
	sc.Clients = append(sc.Clients, w)
	if g.pct(40) {
		sc.Clients = append(sc.Clients, ClientSpec{Name: "reader0", Kind: "reader", Ops: []Op{{K: "vv"}, {K: "sleep", D: 5e8}, {K: "events"}, {K: "vv"}}})
	}
	if faulty {
		sc.Rates = map[string]int{}
		if g.pct(40) {
			sc.Rates["short-read"] = g.in(50, 400)
		}
		if g.pct(25) {
			sc.Rates["read-eio"] = g.in(10, 80)
		}
		if g.pct(20) {
			sc.Rates["open-eio"] = g.in(10, 80)
		}
		if g.pct(30) {
			sc.Rates["inotify-overflow"] = g.in(20, 200)
		}
		if g.pct(10) {
			sc.Rates["watch-add-enospc"] = g.in(20, 100)
		}
	}
	switch g.r.IntN(6) {
	case 0:
		sc.Bias.Sticky = g.in(30, 90)
	case 1:
		sc.Bias.Starve = []string{"file.go", "fsn.pump", "writer", "dials.go"}[g.r.IntN(4)]
		sc.Bias.StarveTill = g.in(20, 300)
	}
	return sc
}

func (g *gen) writerOp(fs *FileSpec, pInvalid int) Op {
	content := func() Op {
		op := Op{Part: g.filePart(pInvalid)}
		if pInvalid > 0 && g.pct(20) {
			op.Str = "malformed"
		}
		return op
	}
	if fs.Layout == "link" {
		switch g.r.IntN(10) {
		case 0:
			return Op{K: "touch"}
		case 1, 2, 3:
			op := content()
			op.K, op.N = "rewrite", g.in(0, 3)
			return op
		case 4:
			op := content()
			op.K = "rename" // a plain file renamed over the symlink
			return op
		case 5:
			if fs.Reload {
				return Op{K: "reload"}
			}
		}
		op := content()
		op.K, op.N = "link-swap", g.in(0, 2) // 0: a sibling with another name; 1, 2: a file in another directory
		if fs.PollMS > 0 && op.N > 0 && g.pct(30) {
			// the symlink is re-pointed first and its target only appears later,
			// in a directory nobody watches: only the fallback poll can notice
			op.K, op.D = "link-swap-late", int64(g.in(2, 5))*int64(fs.PollMS)*1e6
		}
		return op
	}
	if strings.HasPrefix(fs.Layout, "k8s") {
		switch g.r.IntN(8) {
		case 0:
			return Op{K: "touch"}
		case 1:
			op := content()
			op.K, op.N = "rewrite", g.in(1, 4)
			return op
		case 2:
			if fs.Reload {
				return Op{K: "reload"}
			}
		}
		op := content()
		op.K, op.N = "k8s-swap", g.in(0, 1) // N=1: remove the old timestamped directory afterwards
		if g.pct(20) {
			op.Part, op.Str = nil, "same" // the new directory holds a byte-identical copy
		}
		return op
	}
	if fs.Format == "yaml" && g.pct(30) {
		// grow the file in place: the old bytes stay as a prefix
		return Op{K: "append", N: g.in(1, 9)}
	}
	switch g.r.IntN(12) {
	case 0, 1, 2:
		op := content()
		op.K, op.N = "rewrite", g.in(0, 4)
		return op
	case 3, 4, 5:
		op := content()
		op.K = "rename"
		return op
	case 6:
		return Op{K: "rename-same"}
	case 7:
		op := content()
		op.K = "delete-create"
		op.N = g.in(0, 1) // 1: a scheduling point between the unlink and the create
		if g.pct(25) {
			op.Part, op.Str = nil, "same"
		}
		return op
	case 8:
		return Op{K: "touch"}
	case 9:
		op := content()
		op.K, op.N = "burst", g.in(5, 100)
		return op
	case 10:
		if fs.Reload {
			return Op{K: "reload"}
		}
		op := content()
		op.K = "rename"
		return op
	}
	op := content()
	op.K, op.N = "rewrite", 1
	return op
}

// setupFile creates the per-run directory, the initial content and the
// watching source.
func (r *Run) setupFile(st *srcState) {
	fs := r.sc.File
	f := &fileState{spec: fs, root: fileRoot(), known: map[string]uint64{}, idx: st.idx}
	r.file = f
	f.dir = filepath.Join(f.root, "w")
	must(os.MkdirAll(f.dir, 0755))
	f.path = filepath.Join(f.dir, "cfg.json")
	content := fs.render(st.spec.Init, st.idx)
	f.known[string(content)] = st.spec.Init.ID
	f.cur = st.spec.Init
	switch fs.Layout {
	case "link":
		// starts as a symlink to a sibling with another name (or, half of the
		// time, as a plain file that a later link-swap replaces by a symlink)
		if st.spec.Init.ID%2 == 0 {
			must(os.WriteFile(filepath.Join(f.dir, "cfg-v0.json"), content, 0644))
			must(os.Symlink("cfg-v0.json", f.path))
		} else {
			must(os.WriteFile(f.path, content, 0644))
		}
	case "k8s", "k8sdata":
		f.tsN = 1
		ts := "..ts-1."
		must(os.Mkdir(filepath.Join(f.dir, ts), 0755))
		must(os.Symlink(ts, filepath.Join(f.dir, f.linkName())))
		must(os.Symlink(filepath.Join(f.linkName(), "cfg.json"), f.path))
		must(os.WriteFile(filepath.Join(f.dir, ts, "cfg.json"), content, 0644))
	default:
		must(os.WriteFile(f.path, content, 0644))
	}
	var opts []file.WatchOpt
	if fs.PollMS > 0 {
		opts = append(opts, file.WithPollInterval(time.Duration(fs.PollMS)*time.Millisecond))
	}
	if fs.Reload {
		f.reload = make(chan os.Signal, 4)
		opts = append(opts, file.WithSignalChannel(f.reload))
	}
	given := f.path
	switch fs.Unclean {
	case 1:
		given = filepath.Dir(f.path) + "//" + filepath.Base(f.path)
	case 2:
		given = filepath.Dir(f.path) + "/./" + filepath.Base(f.path)
	case 3:
		given = filepath.Dir(f.path) + "/x/../" + filepath.Base(f.path)
	}
	src, err := file.NewWatchingSource(given, fs.decoder(), opts...)
	must(err)
	f.src = src
	st.src = src
	if fs.Picky {
		st.src = sourcewrap.NewTransformingSource(src, pickyMangler{})
	}
}

func must(err error) {
	if err != nil {
		panic(err)
	}
}

// linkName: the intermediate directory symlink of the Kubernetes layouts.
func (f *fileState) linkName() string {
	if f.spec.Layout == "k8sdata" {
		return "..data"
	}
	return "..dir"
}

func (r *Run) cleanupFile() {
	if r.file != nil {
		os.RemoveAll(r.file.root)
	}
}

func (r *Run) contentFor(op *Op, st *srcState) []byte {
	if op.Str == "malformed" {
		if r.file.spec.Picky && op.Part.ID%2 == 0 {
			// decodes, but the wrapper in front of the file source cannot translate it back
			r.probe("file-content-refused-by-the-wrapper")
			if r.file.spec.Format == "yaml" {
				return []byte(fmt.Sprintf("s: \"untranslatable-%d\"\n", op.Part.ID))
			}
			return []byte(fmt.Sprintf(`{"S": "untranslatable-%d"}`, op.Part.ID))
		}
		if r.file.spec.Format == "yaml" {
			return malformedYAML(op.Part.ID)
		}
		return malformed(op.Part.ID)
	}
	b := r.file.spec.render(op.Part, st.idx)
	r.file.known[string(b)] = op.Part.ID
	r.file.cur = op.Part
	return b
}

// writer executes the drawn sequence of file operations; every system call
// is its own scheduling step.
func (r *Run) writer(c *ClientSpec) {
	f := r.file
	st := r.srcs[c.Src]
	changed := func() { f.lastChange = r.sim.Step() }
	defer r.debugWatches()
	for i := range c.Ops {
		op := &c.Ops[i]
		prevOpAt := f.lastOpAt
		if op.K != "sleep" && op.K != "await-read" && op.K != "quiesce" {
			f.lastOpAt = r.sim.Step()
		}
		switch op.K {
		case "sleep":
			simrt.Sleep(time.Duration(op.D))
		case "quiesce":
			// resume only once the watcher stack has drained everything
			simrt.SleepIdle(time.Duration(op.D))
			r.probe("writer-waited-for-quiescence")
		case "await-read":
			// pause until the code under test has completed one more read of the
			// file (or ten simulated minutes have passed): the next operation then
			// lands right behind a read, before the watcher has finished reacting to it
			n, giveUp := len(r.reads), false
			r.sim.Spawn(fmt.Sprintf("await-timer-%d", i), func() {
				simrt.Sleep(10 * time.Minute)
				giveUp = true
			})
			simrt.YieldWhen("w.await-read", func() bool { return len(r.reads) > n || giveUp })
			if !giveUp {
				r.probe("operation-right-behind-a-read")
			}
		case "reload":
			select {
			case f.reload <- syscall.SIGHUP:
				r.probe("reload-signal")
			default:
			}
			simrt.Yield("w.reload")
		case "touch":
			now := time.Now()
			os.Chtimes(f.path, now, now)
			simrt.Yield("w.touch")
		case "rewrite":
			content := r.contentFor(op, st)
			fh, err := os.OpenFile(f.path, os.O_WRONLY|os.O_TRUNC|os.O_CREATE, 0644)
			if err != nil {
				continue
			}
			changed()
			if op.N == 0 {
				// the whole rewrite within one scheduling step: a real writer's
				// three system calls can all land between two steps of the watcher
				fh.Write(content)
				fh.Close()
				changed()
				simrt.Yield("w.rewritten")
				r.probe("in-place-rewrite-single-step")
				continue
			}
			simrt.Yield("w.truncated")
			n := op.N
			if n < 1 {
				n = 1
			}
			for k := 0; k < n; k++ {
				lo, hi := len(content)*k/n, len(content)*(k+1)/n
				fh.Write(content[lo:hi])
				changed()
				simrt.Yield("w.chunk")
			}
			fh.Close()
			simrt.Yield("w.closed")
			r.probe("in-place-rewrite")
		case "rename", "rename-same":
			var content []byte
			if op.K == "rename-same" {
				b, err := os.ReadFile(f.path)
				if err != nil {
					continue
				}
				content = b
				r.probe("identical-replace")
			} else {
				content = r.contentFor(op, st)
			}
			tmp := f.path + ".tmp"
			os.WriteFile(tmp, content, 0644)
			simrt.Yield("w.tmp-written")
			os.Rename(tmp, f.path)
			changed()
			simrt.Yield("w.renamed")
		case "delete-create":
			var content []byte
			if op.Str == "same" {
				b, err := os.ReadFile(f.path)
				if err != nil {
					continue
				}
				content = b
				r.probe("delete-recreate-identical-content")
			} else {
				content = r.contentFor(op, st)
			}
			os.Remove(f.path)
			changed()
			if op.N == 1 {
				simrt.Yield("w.deleted")
			}
			os.WriteFile(f.path, content, 0644)
			changed()
			simrt.Yield("w.recreated")
			r.probe("delete-recreate")
		case "burst":
			content := r.contentFor(op, st)
			for k := 0; k < op.N; k++ {
				os.WriteFile(f.path, content, 0644)
			}
			changed()
			simrt.Yield("w.burst")
			r.probe("burst")
		case "append":
			// only a complete, well-formed document ending in its stamp can grow this way
			cur := f.cur
			if cur == nil || cur.ID == 0 || cur.ID > 1<<40 {
				f.lastOpAt = prevOpAt // (nothing was written: not an operation)
				continue
			}
			if b, err := os.ReadFile(f.path); err != nil || string(b) != string(f.spec.render(cur, st.idx)) {
				f.lastOpAt = prevOpAt // (nothing was written: not an operation)
				continue
			}
			grown := *cur
			grown.ID = cur.ID*1000 + uint64(op.N)
			tail := fmt.Sprintf("%03d\n", op.N)
			switch {
			case grown.After == nil:
				grown.After = ip(int(grown.ID % 1000003))
				// (after precedes lo/hi/forbidden/stamp in a fresh rendering: as a
				// YAML mapping the order of keys is immaterial)
				tail += fmt.Sprintf("after: %d\n", *grown.After)
			case grown.I == nil:
				grown.I = ip(int(grown.ID % 1000003))
				tail += fmt.Sprintf("i: %d\n", *grown.I)
			default:
				f.lastOpAt = prevOpAt // (nothing was written: not an operation)
				continue
			}
			r.parts[grown.ID] = &grown
			r.owner[grown.ID] = st.idx
			fh, err := os.OpenFile(f.path, os.O_WRONLY|os.O_APPEND, 0644)
			if err != nil {
				f.lastOpAt = prevOpAt
				continue
			}
			fh.WriteString(tail)
			fh.Close()
			changed()
			full, _ := os.ReadFile(f.path)
			f.known[string(full)] = grown.ID
			f.cur = nil // (its rendering differs from the bytes in the file: no further growth)
			simrt.Yield("w.appended")
			r.probe("file-grown-in-place")
		case "link-swap":
			content := r.contentFor(op, st)
			f.tsN++
			target := fmt.Sprintf("cfg-v%d.json", f.tsN) // relative: a sibling
			if op.N > 0 {
				d := filepath.Join(f.root, fmt.Sprintf("o%d", f.tsN))
				os.Mkdir(d, 0755)
				target = filepath.Join(d, "f.json")
			}
			abs := target
			if !filepath.IsAbs(abs) {
				abs = filepath.Join(f.dir, target)
			}
			os.WriteFile(abs, content, 0644)
			simrt.Yield("w.link-target-written")
			tmp := f.path + ".lnk"
			os.Remove(tmp)
			os.Symlink(target, tmp)
			simrt.Yield("w.link-made")
			os.Rename(tmp, f.path)
			changed()
			simrt.Yield("w.link-swapped")
			r.probe("symlink-repointed")
		case "link-swap-late":
			content := r.contentFor(op, st)
			f.tsN++
			d := filepath.Join(f.root, fmt.Sprintf("o%d", f.tsN))
			os.Mkdir(d, 0755)
			target := filepath.Join(d, "f.json")
			tmp := f.path + ".lnk"
			os.Remove(tmp)
			os.Symlink(target, tmp)
			simrt.Yield("w.link-made")
			os.Rename(tmp, f.path)
			changed()
			simrt.Yield("w.link-swapped-dangling")
			simrt.SleepIdle(time.Duration(op.D)) // several poll intervals with the path unreadable
			os.WriteFile(target, content, 0644)
			changed()
			simrt.Yield("w.link-target-appeared")
			r.probe("symlink-target-appeared-later")
		case "k8s-swap":
			var content []byte
			if op.Str == "same" {
				b, err := os.ReadFile(f.path)
				if err != nil {
					continue
				}
				content = b
				r.probe("k8s-swap-identical-content")
			} else {
				content = r.contentFor(op, st)
			}
			old := fmt.Sprintf("..ts-%d.", f.tsN)
			f.tsN++
			ts := fmt.Sprintf("..ts-%d.", f.tsN)
			os.Mkdir(filepath.Join(f.dir, ts), 0755)
			simrt.Yield("w.k8s-mkdir")
			os.Symlink(ts, filepath.Join(f.dir, f.linkName()+"_tmp"))
			simrt.Yield("w.k8s-symlink")
			os.WriteFile(filepath.Join(f.dir, ts, "cfg.json"), content, 0644)
			simrt.Yield("w.k8s-written")
			os.Rename(filepath.Join(f.dir, f.linkName()+"_tmp"), filepath.Join(f.dir, f.linkName()))
			changed()
			simrt.Yield("w.k8s-swapped")
			if op.N == 1 || f.spec.Layout == "k8sdata" {
				os.RemoveAll(filepath.Join(f.dir, old))
				simrt.Yield("w.k8s-old-removed")
			}
			r.probe("k8s-swap")
		}
	}
}

// fileCandidates: what the file source's slot may hold once everything has
// settled, from the bytes now readable at the path.
func (r *Run) fileCandidates() (ids []uint64, state string) {
	f := r.file
	b, err := os.ReadFile(f.path)
	if err != nil {
		return r.allFileIDs(), "unreadable"
	}
	if id, ok := f.known[string(b)]; ok {
		return []uint64{id}, "known"
	}
	return r.allFileIDs(), "malformed"
}

func (r *Run) allFileIDs() []uint64 {
	var ids []uint64
	for _, id := range r.file.known {
		ids = append(ids, id)
	}
	sort.Slice(ids, func(a, b int) bool { return ids[a] < ids[b] })
	return ids
}

// oracleC17 runs at settle time, after the writer's last operation.
func (r *Run) oracleC17() {
	f := r.file
	if f == nil || len(r.installs) == 0 {
		return
	}
	// (b) no spurious version: the file source causes at most one new version
	// per change of the bytes it read (a torn read and the complete read of one
	// document are two different byte strings, and may even stack to the very
	// same config when another source overrides the leaves they differ in)
	transitions := 0
	var lastData []byte
	haveData := false
	for _, rr := range r.reads {
		if rr.Err != "" {
			continue
		}
		if haveData && string(rr.Data) != string(lastData) {
			transitions++
		}
		lastData, haveData = rr.Data, true
	}
	fileInstalls := 0
	for i := 1; i < len(r.installs); i++ {
		other := false
		for s := 0; s < 4; s++ {
			if s != f.idx && r.installs[i].Stamps[s] != r.installs[i-1].Stamps[s] {
				other = true
			}
		}
		if !other {
			fileInstalls++
		}
	}
	if fileInstalls > transitions {
		r.fail("C17.spurious-version", "%d versions were installed on behalf of the file source although the bytes it read changed only %d times: re-reading unchanged content produced a version", fileInstalls, transitions)
	}
	// (c) every installed file stamp is a content that was written to the path
	ids := map[uint64]bool{}
	for _, id := range f.known {
		ids[id] = true
	}
	for _, in := range r.installs {
		if s := in.Stamps[f.idx]; !ids[s] && !r.tornReadExplains(in) {
			r.fail("C17.unknown-content", "serial %d carries file stamp %d, which no content written to the path has", in.Serial, s)
		}
	}
	// (a) convergence
	if why := r.convergenceExcused(); why != "" {
		r.probe("convergence-not-asserted[" + why + "]")
		return
	}
	cands, state := r.fileCandidates()
	r.probe("final-content-" + state)
	final := r.installs[len(r.installs)-1]
	if state == "known" {
		want := cands[0]
		// the slot must hold the final content; whether it is installed
		// depends on the whole stack
		if !r.convergedTo(want) {
			r.fail("C17.convergence", "changes stopped at step %d and the run settled, but the view (serial %d, stamps %v) does not reflect the file's final content (part %d): %s", f.lastChange, final.Serial, final.Stamps, want, r.finalStackNote(want))
		}
		return
	}
	// final content invalid: the view stays at the last good config and the error is reported
	if state == "malformed" && r.keepUp() {
		// "the error reported": since the source last held well-formed content.
		// (An implementation may stay silent when it reads the very bytes it
		// has already reported as broken; it may not once it has been back to
		// good content in between.)
		lastGood := 0
		for _, rr := range r.reads {
			if _, good := f.known[string(rr.Data)]; good && rr.Err == "" && rr.Step > lastGood {
				lastGood = rr.Step
			}
		}
		found := false
		for _, cb := range r.cbs {
			var de *file.DecoderErr
			if cb.Kind == "err" && errors.As(cb.Err, &de) && cb.Enter >= lastGood {
				found = true
			}
			// (a content the wrapper in front of the source refuses: that error)
			if cb.Kind == "err" && errors.Is(cb.Err, errPicky) && cb.Enter >= lastGood {
				found = true
			}
			// (under injected I/O faults the error the user is told about the
			// file may be the read error instead of the decode error)
			if cb.Kind == "err" && cb.Err != nil && cb.Enter >= lastGood && r.sim.LastFault > 0 && strings.Contains(cb.Err.Error(), "input/output error") {
				found = true
			}
		}
		if !found && r.sim.LastFault < f.lastOpAt {
			r.fail("C17.error-not-reported", "the file's final content is malformed (changes stopped at step %d) but no decoder error reached OnWatchedError since the source last read well-formed content (step %d); error callbacks: %s", f.lastChange, lastGood, r.errCallbacks())
		}
	}
}

// convergedTo: with the file slot holding part want, is the final view what
// the last reported values of all sources stack to (or legitimately older
// because that stack does not verify)?
func (r *Run) convergedTo(want uint64) bool {
	f := r.file
	final := r.installs[len(r.installs)-1]
	cands := make([][]uint64, 4)
	combos := 1
	for s := 0; s < 4; s++ {
		switch {
		case s == f.idx:
			cands[s] = []uint64{want}
		case s < len(r.srcs):
			cands[s] = r.slotCandidates(s)
		default:
			cands[s] = []uint64{0}
		}
		combos *= len(cands[s])
	}
	for n := 0; n < combos; n++ {
		var st [4]uint64
		k := n
		for s := 0; s < 4; s++ {
			st[s] = cands[s][k%len(cands[s])]
			k /= len(cands[s])
		}
		fr := r.fresh(st)
		if fr.err != nil || !fr.valid {
			// not installable: the view stays where it was, but the rejection
			// must have been reported for this very stack
			for _, v := range r.verifies {
				if v.Failed && v.Stamps == st {
					return true
				}
			}
			continue
		}
		if final.Stamps == st && final.FP == fr.fp {
			return true
		}
	}
	return false
}

func (r *Run) finalStackNote(want uint64) string {
	var seen []string
	for _, in := range r.installs {
		seen = append(seen, fmt.Sprint(in.Stamps[r.file.idx]))
	}
	return "file stamps installed over time: " + strings.Join(seen, ",")
}

// releaseOracle: after cancellation the watcher's goroutines and its inotify
// descriptor are gone.
func (r *Run) releaseOracle() {
	if r.file == nil {
		return
	}
	c := r.sim.Counters
	if c["inotify-opened"] != c["inotify-closed"] {
		r.fail("C17.release", "%d inotify descriptors were opened but %d closed after the context was cancelled", c["inotify-opened"], c["inotify-closed"])
	}
	for _, t := range r.sim.Tasks() {
		if t.Lib && t.State != simrt.Exited {
			r.fail("C17.release", "goroutine %s still %s at %q after the context was cancelled", t.Name, t.State, t.Label)
		}
	}
}

type decodeSource struct {
	data []byte
	dec  dials.Decoder
}

func (d decodeSource) Value(_ context.Context, t *dials.Type) (reflect.Value, error) {
	return d.dec.Decode(bytes.NewReader(d.data), t)
}

// tornReadExplains: a read of the code under test that raced a non-atomic
// rewrite may have obtained bytes that are no content the writer ever wrote
// and still decode. Such a version is legitimate when it equals the fresh
// stack over exactly the bytes that were read (recorded by the file wrapper).
func (r *Run) tornReadExplains(in Install) bool {
	if r.file == nil {
		return false
	}
	for _, rr := range r.reads {
		if rr.Err != "" || rr.Step > in.Step {
			continue
		}
		if _, known := r.file.known[string(rr.Data)]; known {
			continue
		}
		var srcs []dials.Source
		for i := range r.sc.Sources {
			if i == r.file.idx {
				srcs = append(srcs, decodeSource{rr.Data, r.file.spec.decoder()})
			} else {
				srcs = append(srcs, partSource{p: r.parts[in.Stamps[i]], owner: i})
			}
		}
		d, err := dials.Params[CfgCore]{SkipInitialVerification: true}.Config(context.Background(), defaultsFrom(&r.sc.Defaults), srcs...)
		if err != nil {
			continue
		}
		if render(d.View()) == in.FP {
			return true
		}
	}
	return false
}

// convergenceExcused names the injected fault, if any, that puts this run
// outside the premise of the convergence claim ("once changes - and faults -
// stop"): the OS refused a watch, or a read of the final content failed and,
// without polling, nothing will ever trigger another read.
func (r *Run) convergenceExcused() string {
	f := r.file
	if f == nil {
		return ""
	}
	c := r.sim.Counters
	if c["fault:watch-add-enospc"] > 0 {
		return "watch-add-failed"
	}
	if r.sim.LastFault > 0 && r.sim.LastFault >= f.lastOpAt && (c["fault:read-eio"] > 0 || c["fault:open-eio"] > 0) && f.spec.PollMS == 0 {
		return "read-fault-after-last-change"
	}
	return ""
}

// debugWatches (verbose replays only) lists the kernel's inotify watches and
// the inodes of the directories involved.
func (r *Run) debugWatches() {
	if !r.sim.KeepLog {
		return
	}
	ents, _ := os.ReadDir("/proc/self/fdinfo")
	for _, e := range ents {
		b, _ := os.ReadFile("/proc/self/fdinfo/" + e.Name())
		if strings.Contains(string(b), "inotify") {
			simrt.Logf("fdinfo %s: %s", e.Name(), strings.ReplaceAll(string(b), "\n", " | "))
		}
	}
	filepath.Walk(r.file.dir, func(p string, fi os.FileInfo, err error) error {
		if err == nil {
			if st, ok := fi.Sys().(*syscall.Stat_t); ok {
				simrt.Logf("inode %x %s", st.Ino, p)
			}
		}
		return nil
	})
}

// bytesChangedBetween: did the code under test read different bytes in
// (from, to] than in its last successful read up to from? (A torn read and the
// complete read of one document differ in bytes but may stack to the very
// same config when another source overrides the leaves they differ in.)
func (r *Run) bytesChangedBetween(from, to int) bool {
	var last []byte
	have := false
	for _, rr := range r.reads {
		if rr.Err != "" {
			continue
		}
		if rr.Step <= from {
			last, have = rr.Data, true
			continue
		}
		if rr.Step > to {
			break
		}
		if !have || string(rr.Data) != string(last) {
			return true
		}
	}
	return false
}

func (r *Run) errCallbacks() string {
	var l []string
	for _, cb := range r.cbs {
		if cb.Kind == "err" {
			l = append(l, fmt.Sprintf("step %d: %v", cb.Enter, cb.Err))
		}
	}
	if len(l) == 0 {
		return "none"
	}
	return strings.Join(l, "; ")
}
