package main

import (
	"context"
	"fmt"
	"math/rand/v2"
	"os"
	"path/filepath"
	"time"

	"simrt"

	"github.com/vimeo/dials"
	jsondec "github.com/vimeo/dials/decoders/json"
	"github.com/vimeo/dials/sources/file"
	"github.com/vimeo/dials/sourcewrap"
)

// ---- C17: a watching file source that is set on a Blank later ----
//
// The other C17 runs hand the file source to Config. An application that
// learns the path of its config file late (as ez does) starts with a Blank and
// sets the watching file source on it afterwards - with whatever context that
// call happens to have: the Config context, a start-up context that ends as
// soon as start-up is over, or a context of the caller's own that lives on.
// Whichever it is, the watcher belongs to the Dials: it follows the file until
// the Config context ends, and is released when that happens.

type FileBlankSpec struct {
	Ctx    string   `json:"ctx"` // same | startup | own
	IDs    []uint64 `json:"ids"` // the file's contents in order; the first one is there from the start
	How    []string `json:"how"` // how each later content is written: rename | rewrite
	PollMS int      `json:"poll_ms,omitempty"`
}

func genFileBlank(seed uint64, faulty bool) *Scenario {
	g := &gen{r: rand.New(rand.NewPCG(seed, 0x5eed5eed))}
	sc := &Scenario{Prop: "C17", Seed: seed, Faulty: faulty, GlobalCB: "instant", Shutdown: "cancel", MaxSteps: 20000}
	fb := &FileBlankSpec{Ctx: []string{"same", "startup", "startup", "own"}[g.r.IntN(4)]}
	for i, n := 0, g.in(2, 5); i < n; i++ {
		fb.IDs = append(fb.IDs, g.id())
		if i > 0 {
			fb.How = append(fb.How, []string{"rename", "rename", "rewrite"}[g.r.IntN(3)])
		}
	}
	if g.pct(30) {
		fb.PollMS = g.in(1, 10) * 60000
	}
	sc.FB = fb
	if g.r.IntN(5) == 0 {
		sc.Bias.Sticky = g.in(30, 90)
	}
	return sc
}

func fbContent(id uint64) []byte {
	return []byte(fmt.Sprintf(`{"StampA": %d, "I": %d, "S": "content-%d"}`, id, id%1000, id))
}

func runFileBlank(sc *Scenario, res *Result, keepLog bool) {
	fb := sc.FB
	var viol []Violation
	fail := func(oracle, format string, a ...any) {
		if len(viol) < 20 {
			viol = append(viol, Violation{Oracle: oracle, Msg: fmt.Sprintf(format, a...)})
		}
	}
	probes := map[string]int{}
	s := simrt.New(sc.Seed, sc.Choices)
	defer s.Close()
	s.Record, s.KeepLog, s.Bias = true, keepLog, sc.Bias
	root := fileRoot()
	defer os.RemoveAll(root)
	dir := filepath.Join(root, "w")
	must(os.MkdirAll(dir, 0755))
	path := filepath.Join(dir, "cfg.json")
	must(os.WriteFile(path, fbContent(fb.IDs[0]), 0644))

	ctx, cancel := context.WithCancel(context.Background())
	defer cancel()
	ownCtx, ownCancel := context.WithCancel(context.Background())
	defer ownCancel()
	var (
		d               *dials.Dials[CfgCore]
		cfgErr, handErr error
		handed          bool
		done, clients   int
		lastID          = fb.IDs[0]
	)
	clients++
	s.Spawn("main", func() {
		defer func() { done++ }()
		defer func() { handed = true }()
		blank := &sourcewrap.Blank{}
		d, cfgErr = dials.Config(ctx, &CfgCore{}, blank)
		if cfgErr != nil {
			return
		}
		var opts []file.WatchOpt
		if fb.PollMS > 0 {
			opts = append(opts, file.WithPollInterval(time.Duration(fb.PollMS)*time.Millisecond))
		}
		src, err := file.NewWatchingSource(path, &jsondec.Decoder{}, opts...)
		must(err)
		switch fb.Ctx {
		case "startup":
			// a context for the start-up phase only
			sctx, scancel := context.WithTimeout(ctx, time.Hour)
			handErr = blank.SetSource(sctx, src)
			scancel()
			probes["file-source-set-with-a-start-up-context"]++
		case "own":
			// a context of the caller's own, which outlives the Dials
			handErr = blank.SetSource(ownCtx, src)
			probes["file-source-set-with-a-context-that-outlives-the-dials"]++
		default:
			handErr = blank.SetSource(ctx, src)
		}
	})
	clients++
	s.Spawn("writer", func() {
		defer func() { done++ }()
		simrt.YieldWhen("await-handover", func() bool { return handed })
		for i, how := range fb.How {
			id := fb.IDs[i+1]
			content := fbContent(id)
			if how == "rename" {
				os.WriteFile(path+".tmp", content, 0644)
				simrt.Yield("w.tmp")
				os.Rename(path+".tmp", path)
			} else {
				fh, err := os.OpenFile(path, os.O_WRONLY|os.O_TRUNC, 0644)
				if err != nil {
					continue
				}
				simrt.Yield("w.truncated")
				fh.Write(content[:len(content)/2])
				simrt.Yield("w.half")
				fh.Write(content[len(content)/2:])
				fh.Close()
			}
			lastID = id
			simrt.Yield("w.done")
			if i%2 == 1 {
				simrt.Sleep(time.Duration(300+i*200) * time.Millisecond)
			}
		}
	})
	reason := s.Run(sc.MaxSteps, func() bool { return done >= clients }, time.Time{})
	settle := s.Run(sc.MaxSteps, nil, time.Now().Add(settleHorizon))
	res.Reason = string(reason) + "/" + string(settle)
	for _, c := range s.Crashes {
		fail("crash", "task %s panicked at step %d: %s\n%s", c.Task, c.Step, c.Value, c.Stack)
	}
	s.Crashes = nil
	switch {
	case reason != simrt.Done:
		fail("stuck", "Config, SetSource or the writer did not finish (%s): %s", reason, s.ParkedLabels())
	case cfgErr != nil:
		fail("C17.convergence", "Config over an empty Blank failed: %v", cfgErr)
	case handErr != nil:
		fail("C17.convergence", "SetSource of the watching file source (a well-formed file, context %q) failed: %v", fb.Ctx, handErr)
	default:
		probes["file-source-handed-over-on-a-blank"]++
		if got := d.View().StampA; got != lastID {
			fail("C17.convergence", "the watching file source was set on a Blank (SetSource context: %s); changes stopped and the run settled, but the view holds content %d, the file %d", fb.Ctx, got, lastID)
		}
	}
	// the watcher is the Dials': gone with the Config context, whatever SetSource was given
	cancel()
	s.Run(20000, nil, time.Now().Add(settleHorizon))
	for _, t := range s.Tasks() {
		if t.Lib && t.State != simrt.Exited {
			fail("C17.release", "the Config context was cancelled (SetSource context: %s) but %s is still %s at %q", fb.Ctx, t.Name, t.State, t.Label)
		}
	}
	if c := s.Counters; c["inotify-opened"] != c["inotify-closed"] {
		fail("C17.release", "%d inotify descriptors opened, %d closed after the Config context was cancelled (SetSource context: %s)", c["inotify-opened"], c["inotify-closed"], fb.Ctx)
	}
	ownCancel()
	s.Run(20000, nil, time.Now().Add(settleHorizon))
	res.Viol = viol
	res.Hash, res.Steps, res.NChoices, res.SimNS, res.States = s.Hash(), s.Step(), s.Choices(), int64(s.Elapsed()), s.States
	for k, v := range probes {
		res.Probes[k] += v
	}
	res.Made = make([]int, len(s.Made))
	for i, c := range s.Made {
		res.Made[i] = c.V
	}
	res.Log = s.Log
}
