module verif/harness

go 1.26.8

require (
	github.com/anishathalye/porcupine v1.3.0
	github.com/fsnotify/fsnotify v1.8.0
	github.com/vimeo/dials v0.0.0
	simrt v0.0.0
)

replace github.com/vimeo/dials => /dev/shm/verif-scratch/dials

replace simrt => /verif/simrt

replace github.com/fsnotify/fsnotify => /verif/simfsnotify
