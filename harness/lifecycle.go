package main

import (
	"context"
	"fmt"
	"math/rand/v2"
	"reflect"
	"strings"
	"time"

	"simrt"

	"github.com/vimeo/dials"
)

// probeReport checks bounded liveness: a fresh report from a watching source
// that is still active is processed (installed, or rejected for a reason the
// harness can name) before the run settles again.
func (r *Run) probeReport(oracle, why string, despiteDone ...bool) {
	var st *srcState
	for _, s := range r.srcs {
		if s.spec.Kind == "watch" && s.wa != nil && s.doneAt == 0 && !s.doneTried && !s.spec.Wrapped {
			st = s
		}
	}
	if len(despiteDone) == 0 {
		for _, op := range r.ops {
			if op.K == "done" || op.K == "bdone" {
				return // a watcher may be gone (and with the last one, the monitor): nothing to probe
			}
		}
	}
	if st == nil || r.ctx.Err() != nil {
		return
	}
	r.probing = true
	id := uint64(1 << 40)
	p := &Part{ID: id, Lo: ip(0), Hi: ip(9), Forbidden: bp(false), S: sp("liveness-probe")}
	r.parts[id] = p
	r.owner[id] = st.idx
	var err error
	returned := false
	r.clients++
	r.sim.Spawn("liveness-probe", func() {
		v := buildValue(st.typ.Type(), p, st.idx)
		ctx, cancel := context.WithTimeout(r.ctx, time.Hour)
		defer cancel()
		err = st.wa.BlockingReportNewValue(ctx, v)
		returned = true
		r.finished++
	})
	r.sim.Run(r.sc.MaxSteps, nil, time.Now().Add(settleHorizon))
	r.crashOracle()
	r.probe("liveness-probe")
	if !returned {
		r.fail(oracle, "%s: a later blocking report never returned", why)
		return
	}
	last := r.installs[len(r.installs)-1]
	if err == nil {
		if last.Stamps[st.idx] != id {
			r.fail(oracle, "%s: a later blocking report returned nil but the view does not contain it", why)
		}
		return
	}
	// processed and rejected (a lingering value of another source may make the
	// stack unacceptable; C04's oracles judge whether a rejection is right):
	// liveness is shown. A context error means nobody processed it.
	if isCtxErr(err) {
		r.fail(oracle, "%s: a later blocking report was not processed within an hour of simulated time: %v", why, err)
	}
}

// lifecycleShutdown is the C08 end game: blocked-callback liveness, shutdown
// by cancellation or by every watcher calling Done, then late calls.
func (r *Run) lifecycleShutdown() {
	s := r.sim
	if r.sc.GlobalCB == "block" && r.probes["callback-blocked"] > 0 {
		r.probeReport("C08.blocked-callback", "a callback is blocked forever")
	}
	switch r.sc.Shutdown {
	case "done":
		r.clients++
		s.Spawn("shutdown", func() {
			// Done for every watcher whose own Done is not known to have been
			// delivered (a Done whose context had ended may have been dropped),
			// in an order drawn from the run seed: watchers may finish in any order
			order := rand.New(rand.NewPCG(r.sc.Seed, 0xd0e)).Perm(len(r.srcs))
			for _, i := range order {
				st := r.srcs[i]
				if st.doneAt != 0 {
					continue
				}
				ctx, cancel := context.WithTimeout(context.Background(), time.Hour)
				switch {
				case st.blank != nil:
					st.blank.Done(ctx)
					if st.innerWA != nil {
						st.innerWA.Done(ctx) // the slot belongs to the inner watcher now
					}
				case st.wa != nil:
					st.wa.Done(ctx)
				}
				cancel()
				st.doneAt = s.Step()
			}
			r.finished++
		})
		r.probe("shutdown-by-done")
	default:
		r.cancel()
		r.probe("shutdown-by-cancel")
	}
	reason := s.Run(20000, nil, time.Now().Add(settleHorizon))
	r.crashOracle()
	if reason != simrt.Quiescent {
		r.fail("C08.shutdown", "shutdown did not settle: %s", reason)
	}
	r.leakOracle("after shutdown (" + r.sc.Shutdown + ")")
	// late calls
	r.phase = "late"
	r.clients++
	s.Spawn("late", r.lateCalls)
	reason = s.Run(20000, nil, time.Now().Add(settleHorizon))
	r.crashOracle()
	for _, op := range r.lateOps {
		if op.Return == 0 {
			r.fail("C08.late-call", "late %s (after shutdown) never returned although its context ended", op.K)
		}
	}
	r.leakOracle("after the late calls")
}

func (r *Run) lateOp(k string, f func(ctx context.Context) string) {
	rec := &OpRec{Client: "late", K: k, Invoke: r.sim.Step()}
	r.lateOps = append(r.lateOps, rec)
	ctx, cancel := context.WithTimeout(context.Background(), 500*time.Millisecond)
	start := time.Now()
	res := f(ctx)
	rec.Return = r.sim.Step()
	if d := time.Since(start); d > 500*time.Millisecond {
		r.fail("C08.late-call", "late %s returned %v after its context's deadline", k, d-500*time.Millisecond)
	}
	cancel()
	if res != "" {
		r.fail("C08.late-call", "late %s after shutdown: %s", k, res)
	}
	r.probe("late-" + k)
}

func (r *Run) lateCalls() {
	defer func() { r.finished++ }()
	r.lateOp("RegisterCallback", func(ctx context.Context) string {
		_, ser := r.d.ViewVersion()
		un := r.d.RegisterCallback(ctx, ser, func(context.Context, *CfgCore, *CfgCore) {})
		if un != nil {
			return "returned a non-nil unregister function although nothing will ever run the callback"
		}
		return ""
	})
	for _, h := range r.handles {
		if h.unreg == nil {
			continue
		}
		h := h
		for i := 0; i < 2; i++ {
			r.lateOp("unregister", func(ctx context.Context) string {
				if h.unreg(ctx) {
					return "returned true"
				}
				return ""
			})
		}
	}
	r.lateOp("EnableVerification", func(ctx context.Context) string {
		r.d.EnableVerification(ctx)
		return ""
	})
	for _, st := range r.srcs {
		st := st
		if st.wa != nil && st.typ != nil {
			r.lateOp("ReportNewValue", func(ctx context.Context) string {
				if err := st.wa.ReportNewValue(ctx, reflect.New(st.typ.Type())); err == nil {
					return "returned nil although the monitor is gone"
				} else if !isCtxErr(err) {
					return fmt.Sprintf("returned %v, not a context error", err)
				}
				return ""
			})
			r.lateOp("BlockingReportNewValue", func(ctx context.Context) string {
				if err := st.wa.BlockingReportNewValue(ctx, reflect.New(st.typ.Type())); err == nil {
					return "returned nil although the monitor is gone"
				} else if !isCtxErr(err) {
					return fmt.Sprintf("returned %v, not a context error", err)
				}
				return ""
			})
			r.lateOp("ReportError", func(ctx context.Context) string {
				if err := st.wa.ReportError(ctx, fmt.Errorf("late")); err == nil {
					return "returned nil although the monitor is gone"
				}
				return ""
			})
			r.lateOp("Done", func(ctx context.Context) string { st.wa.Done(ctx); return "" })
		}
		if st.blank != nil {
			r.lateOp("Blank.SetSource", func(ctx context.Context) string {
				if err := st.blank.SetSource(ctx, &innerStatic{r: r, st: st, part: &Part{}}); err == nil {
					return "returned nil although the monitor is gone"
				}
				return ""
			})
			r.lateOp("Blank.Done", func(ctx context.Context) string { st.blank.Done(ctx); return "" })
		}
	}
}

// ---- C02: mutator and address oracles ----

const poisonS = "POISON"
const poisonI = -666

func scribble(c *CfgCore) {
	if c == nil {
		return
	}
	c.S = poisonS
	c.I = poisonI
	if c.P != nil {
		*c.P = poisonI
	}
	for i := range c.Strs {
		c.Strs[i] = poisonS
	}
	if cap(c.Strs) > len(c.Strs) {
		full := c.Strs[:cap(c.Strs)]
		for i := range full {
			full[i] = poisonS
		}
	}
	c.Strs = append(c.Strs, poisonS)
	if c.M != nil {
		for k := range c.M {
			c.M[k] = poisonI
		}
		c.M[poisonS] = poisonI
	}
	if c.Set != nil {
		c.Set[poisonS] = struct{}{}
	}
	for _, m := range c.SM {
		if m != nil {
			m[poisonS] = poisonI
		}
	}
	for i := range c.Pairs {
		for j := range c.Pairs[i] {
			if c.Pairs[i][j] != nil {
				*c.Pairs[i][j] = poisonI
			}
		}
	}
	for i := range c.Peers {
		c.Peers[i].S = poisonS
		if c.Peers[i].X != nil {
			*c.Peers[i].X = poisonI
		}
	}
	for _, n := range c.PM {
		if n != nil {
			n.S = poisonS
		}
	}
	if c.PWhen != nil {
		*c.PWhen = c.PWhen.Add(666 * time.Hour)
	}
	if c.TU.M != nil {
		c.TU.M[poisonS] = poisonI
	}
	for i := range c.TU.L {
		c.TU.L[i] = poisonS
	}
	if c.HeldP != nil {
		if c.HeldP.M != nil {
			c.HeldP.M[poisonS] = poisonI
		}
		for i := range c.HeldP.L {
			c.HeldP.L[i] = poisonS
		}
	}
	if m := deepBottom(c.Chain); m != nil {
		m[poisonS] = poisonI
	}
	for _, m := range c.MA {
		if m != nil {
			m[poisonS] = poisonI
		}
	}
	for i := range c.Sh.Tags {
		c.Sh.Tags[i] = poisonS
	}
	if c.Sh.W != nil {
		c.Sh.W[poisonS] = poisonI
	}
	for k := range c.KP {
		if k.Z != nil {
			k.Z.ID = poisonI
		}
	}
	for k, l := range c.MM {
		for i := range l {
			l[i] = poisonS
		}
		c.MM[k] = append(l, poisonS)
	}
	c.Nest.S = poisonS
	if c.Nest.X != nil {
		*c.Nest.X = poisonI
	}
	if c.PN != nil {
		c.PN.S = poisonS
		c.PN.N = poisonI
	}
	c.EmbS = poisonS
	if c.Emb.M != nil {
		c.Emb.M[poisonS] = poisonI
	}
	c.After = poisonI
	if c.SkipM != nil {
		c.SkipM[poisonS] = poisonI
	}
	if c.SkipP != nil {
		*c.SkipP = poisonI
	}
}

func (r *Run) mutator(c *ClientSpec) {
	var got *CfgCore
	un := r.d.RegisterCallback(r.ctx, dials.CfgSerial[CfgCore]{}, func(_ context.Context, o, n *CfgCore) {
		got = n
		if o != nil {
			r.probe("mutated-old-config-in-callback")
			scribble(o)
		}
	})
	for i := range c.Ops {
		op := &c.Ops[i]
		switch op.K {
		case "sleep":
			simrt.Sleep(time.Duration(op.D))
		case "mutate":
			var cfg *CfgCore
			switch op.Str {
			case "view":
				cfg = r.d.View()
			case "vv":
				cfg, _ = r.d.ViewVersion()
			case "events":
				simrt.Yield("events-recv")
				select {
				case cfg = <-r.d.Events():
				default:
				}
			case "callback":
				cfg = got
			case "defaults":
				// the defaults struct is the caller's own memory: after Config
				// has returned the caller may reuse it for anything
				r.defaultsScribbled = true
				r.probe("caller-reused-its-defaults")
				if fp := render(r.defaults); fp != r.defFP {
					r.fail("C02.input-modified", "the caller's defaults were modified by dials\n before: %s\n after:  %s", r.defFP, fp)
				}
				scribble(r.defaults)
				r.defFP = render(r.defaults)
				continue
			}
			if cfg != nil {
				r.probe("mutation[" + op.Str + "]")
				if idx, ok := r.byPtr[cfg]; ok && idx == len(r.installs)-1 {
					r.probe("mutated-current-version")
				}
				scribble(cfg)
			}
		}
	}
	if un != nil {
		un(r.ctx)
	}
}

// addrOracle runs after every step in C02 runs: a newly installed version
// shares no mutable memory with the caller's defaults, with any value a source
// handed to dials, or with any earlier version; and it is unpoisoned.
func (r *Run) addrOracle() {
	if r.regions == nil {
		r.regions = map[int][]region{}
	}
	for ; r.addrDone < len(r.installs); r.addrDone++ {
		i := r.addrDone
		in := r.installs[i]
		// regions are recomputed, never cached: a user (the mutator) may have
		// re-pointed slices of earlier versions, whose old backing arrays are
		// then free for reuse
		reg := regionsOf(reflect.ValueOf(in.Ptr))
		if a, b, ok := overlap(reg, regionsOf(reflect.ValueOf(r.defaults))); ok {
			r.fail("C02.aliasing", "version serial=%d shares memory with the caller's defaults: %s / %s", in.Serial, a.what, b.what)
		}
		for _, st := range r.srcs {
			for _, h := range st.handed {
				if a, b, ok := overlap(reg, regionsOf(h.v)); ok {
					r.fail("C02.aliasing", "version serial=%d shares memory with a value source %d gave to dials (%s, step %d): version%s / value%s", in.Serial, st.idx, h.what, h.step, a.what, b.what)
				}
			}
		}
		for j := 0; j < i; j++ {
			if a, b, ok := overlap(reg, regionsOf(reflect.ValueOf(r.installs[j].Ptr))); ok {
				r.fail("C02.aliasing", "version serial=%d shares memory with version serial=%d: %s / %s", in.Serial, r.installs[j].Serial, a.what, b.what)
			}
		}
		// the rejected candidates handed to OnWatchedError are configs obtained
		// from a callback too: a version shares nothing with them (and is never
		// one of them)
		for _, cb := range r.cbs {
			if cb.Kind != "err" || cb.New == nil || cb.New == in.Ptr && cb.Enter > in.Step {
				continue
			}
			if cb.New == in.Ptr {
				r.fail("C02.aliasing", "version serial=%d IS the rejected config OnWatchedError was given at step %d (the very same struct)", in.Serial, cb.Enter)
				continue
			}
			if a, b, ok := overlap(reg, regionsOf(reflect.ValueOf(cb.New))); ok {
				r.fail("C02.aliasing", "version serial=%d shares memory with the rejected config OnWatchedError was given at step %d: %s / %s", in.Serial, cb.Enter, a.what, b.what)
			}
		}
		if strings.Contains(in.FP, poisonS) || strings.Contains(in.FP, "-666") {
			r.fail("C02.poison", "version serial=%d, installed at step %d, contains values a user wrote into an earlier config: %s", in.Serial, in.Step, in.FP)
		}
		if f := r.fresh(in.Stamps); f.err == nil && f.fp != in.FP {
			r.fail("C02.poison", "version serial=%d differs from the fresh stack of the same inputs\n got:   %s\n fresh: %s", in.Serial, in.FP, f.fp)
		}
	}
}

func (r *Run) oracleC02() {
	// inputs are never modified
	if fp := render(r.defaults); fp != r.defFP {
		r.fail("C02.input-modified", "the caller's defaults were modified\n before: %s\n after:  %s", r.defFP, fp)
	}
	for _, st := range r.srcs {
		for _, h := range st.handed {
			if fp := render(h.v.Interface()); fp != h.fp {
				r.fail("C02.input-modified", "a value source %d gave to dials (%s, step %d) was modified\n before: %s\n after:  %s", st.idx, h.what, h.step, h.fp, fp)
			}
		}
	}
	// the same inputs twice: equal and disjoint
	last := r.installs[len(r.installs)-1]
	var vals []reflect.Value
	mk := func() *CfgCore {
		var srcs []dials.Source
		for i := range r.sc.Sources {
			ps := partSource{p: r.parts[last.Stamps[i]], owner: i}
			srcs = append(srcs, ps)
		}
		d, err := dials.Params[CfgCore]{SkipInitialVerification: true}.Config(context.Background(), r.defaults, srcs...)
		if err != nil {
			return nil
		}
		return d.View()
	}
	_ = vals
	if r.defaultsScribbled {
		return
	}
	a, b := mk(), mk()
	if a == nil || b == nil {
		return
	}
	if render(a) != render(b) {
		r.fail("C02.same-twice", "stacking the same inputs twice gave different results\n %s\n %s", render(a), render(b))
	}
	ra, rb := regionsOf(reflect.ValueOf(a)), regionsOf(reflect.ValueOf(b))
	if x, y, ok := overlap(ra, rb); ok {
		r.fail("C02.same-twice", "stacking the same inputs twice gave results that share memory: %s / %s", x.what, y.what)
	}
	if x, y, ok := overlap(ra, regionsOf(reflect.ValueOf(r.defaults))); ok {
		r.fail("C02.same-twice", "a fresh stack shares memory with the defaults: %s / %s", x.what, y.what)
	}
	r.probe("same-inputs-twice")
}
