package main

import (
	"fmt"
	"sort"
	"sync"
	"time"

	"github.com/anishathalye/porcupine"
)

// ---- C05(d): linearizability of reports and reads against a sequential model ----
//
// Operations, stamped with scheduler step numbers (a total order of atomic
// steps, never coarse simulated time):
//   report(src, id, seq)   a value report; for a blocking report the output is
//                          ok / rejected and the return stamp is its return
//                          step; a non-blocking report is complete only once
//                          the monitor has processed it, which the caller
//                          cannot observe: its return stamp is the end of the run
//   read() -> (serial, stamps)   ViewVersion
// Sequential model: state = (per-source slot, view, serial, per-client
// sequence number). report: the client's reports are processed in program
// order (seq); slot[src] = id; if the fresh stack of the slots can be composed
// and verifies, view = slots and serial++ (output ok), else output rejected.
// read: output must equal (serial, view).

type linState struct {
	slots  [4]uint64
	view   [4]uint64
	serial uint64
	seq    [8]int // per reporting client: next expected program position
}

type linIn struct {
	read     bool
	src      int
	id       uint64
	client   int
	seq      int
	blocking bool
}

type linOut struct {
	serial uint64
	stamps [4]uint64
	ok     bool // blocking report: installed
	known  bool // blocking report whose outcome the caller saw
}

func (r *Run) linearizability() {
	if r.sc.Delay || r.file != nil || len(r.installs) == 0 {
		return
	}
	clientIdx := map[string]int{}
	seqOf := map[string]int{}
	var ops []porcupine.Operation
	end := int64(r.sim.Step() + 1)
	nreads := 0
	sorted := append([]*OpRec(nil), r.ops...)
	sort.SliceStable(sorted, func(a, b int) bool { return sorted[a].Invoke < sorted[b].Invoke })
	for _, op := range sorted {
		switch op.K {
		case "vv":
			if op.Return == 0 || op.Cfg == nil {
				continue
			}
			idx, ok := r.byPtr[op.Cfg]
			if !ok {
				continue
			}
			nreads++
			ops = append(ops, porcupine.Operation{ClientId: 100 + len(ops), Input: linIn{read: true},
				Call: int64(op.Invoke), Output: linOut{serial: op.Serial, stamps: r.installs[idx].Stamps}, Return: int64(op.Return)})
		case "report", "breport", "setsource":
			if op.PartID == 0 || op.Str == "fail" {
				continue
			}
			ci, ok := clientIdx[op.Client]
			if !ok {
				ci = len(clientIdx)
				if ci >= 8 {
					return
				}
				clientIdx[op.Client] = ci
			}
			delivered := op.Return != 0 && (op.Err == nil || (op.K != "report" && !isCtxErr(op.Err)))
			if !delivered {
				if op.K != "report" && op.Return != 0 && isCtxErr(op.Err) {
					return // abandoned blocking report: delivery unknown, history not expressible
				}
				if op.Return == 0 {
					return
				}
				continue // a report that returned a context error was never submitted
			}
			in := linIn{src: op.Src, id: op.PartID, client: ci, seq: seqOf[op.Client], blocking: op.K != "report"}
			seqOf[op.Client]++
			out := linOut{}
			ret := end
			if in.blocking {
				out.known, out.ok = true, op.Err == nil
				ret = int64(op.Return)
			}
			ops = append(ops, porcupine.Operation{ClientId: ci, Input: in, Call: int64(op.Invoke), Output: out, Return: ret})
		}
	}
	if len(ops) == 0 || len(ops) > 40 || nreads == 0 {
		return
	}
	var init linState
	init.slots = r.installs[0].Stamps
	init.view = r.installs[0].Stamps
	var gate sync.RWMutex
	closed := false
	model := porcupine.Model{
		Init: func() interface{} { return init },
		Step: func(state, input, output interface{}) (bool, interface{}) {
			st := state.(linState)
			in := input.(linIn)
			out := output.(linOut)
			if in.read {
				return out.serial == st.serial && out.stamps == st.view, st
			}
			if st.seq[in.client] != in.seq {
				return false, st
			}
			st.seq[in.client]++
			st.slots[in.src] = in.id
			// (the checker's goroutines may outlive its timeout: once the check
			// has returned they must not run library code any more, the next
			// run's simulator would take them for its own tasks)
			gate.RLock()
			if closed {
				gate.RUnlock()
				return false, st
			}
			f := r.fresh(st.slots)
			gate.RUnlock()
			installed := f.err == nil && f.valid
			if installed {
				st.view = st.slots
				st.serial++
			}
			if out.known && out.ok != installed {
				return false, st
			}
			return true, st
		},
		DescribeOperation: func(input, output interface{}) string {
			return fmt.Sprintf("%+v -> %+v", input, output)
		},
	}
	// distinct ClientIds are required for concurrent operations of one client:
	// reads got their own ids above; a reporting client's operations are
	// sequential except that non-blocking reports stay open until the end, so
	// give every operation its own id and let seq enforce program order
	for i := range ops {
		ops[i].ClientId = i
	}
	// the checker starts goroutines and a real-time timer of its own: it runs
	// after the bubble has been left (execute), on the recorded history
	r.post = append(r.post, func(res *Result) {
		verdict := porcupine.CheckOperationsTimeout(model, ops, 3*time.Second)
		gate.Lock()
		closed = true
		gate.Unlock()
		switch verdict {
		case porcupine.Illegal:
			res.Viol = append(res.Viol, Violation{Oracle: "C05.linearizability", Msg: fmt.Sprintf("the history of %d reports and %d reads has no linearization against the sequential slot/view/serial model: %s", len(ops)-nreads, nreads, describeOps(ops))})
		case porcupine.Unknown:
			res.Probes["linearizability-inconclusive"]++
		default:
			res.Probes["linearizability-checked"]++
		}
	})
}

func describeOps(ops []porcupine.Operation) string {
	s := ""
	for _, o := range ops {
		s += fmt.Sprintf("\n  [%d,%d] %+v -> %+v", o.Call, o.Return, o.Input, o.Output)
	}
	return s
}
