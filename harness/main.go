// Command harness is the simulation worker: it generates scenarios from run
// seeds, executes each inside a synctest bubble under the simrt scheduler and
// evaluates the oracles of the property under check.
package main

import (
	"encoding/binary"
	"encoding/json"
	"flag"
	"fmt"
	"os"
	"regexp"
	"sort"
	"time"
)

func mixSeed(seed uint64, run int) uint64 {
	z := seed + uint64(run)*0x9e3779b97f4a7c15 + 0x632be59bd9b4e019
	z = (z ^ (z >> 30)) * 0xbf58476d1ce4e5b9
	z = (z ^ (z >> 27)) * 0x94d049bb133111eb
	return z ^ (z >> 31)
}

// generate draws the scenario of run index i for prop.
func generate(prop string, seed uint64, i int) *Scenario {
	rs := mixSeed(seed, i)
	faulty := i%2 == 1 // fault-free and faulty configurations alternate and are reported separately
	switch prop {
	case "C13":
		return genStream(rs, faulty)
	case "C17":
		if i%16 == 3 {
			return genFileBlank(rs, faulty) // the watching file source is set on a Blank after Config
		}
		return genFile(rs, faulty)
	case "C18":
		return genEz(rs, faulty)
	case "C20":
		return genWrap(rs, faulty)
	}
	if prop == "C05" && i%16 == 5 {
		return genPlain2(rs, faulty) // a source that hands out values of the plain config type
	}
	if prop == "C09" && i%16 == 9 {
		return genEzC09(rs, faulty) // the ez entry points: delayed verification is switched on before they return
	}
	if prop == "C09" && i%16 == 7 {
		return genPlain(rs, faulty) // the same options with a config type that has no Verify method
	}
	return genCore(prop, rs, faulty)
}

const kmvK = 4096

type summary struct {
	Prop       string         `json:"prop"`
	From, N    int            `json:"from"`
	Runs       int            `json:"runs"`
	FaultFree  int            `json:"fault_free_runs"`
	Faulty     int            `json:"faulty_runs"`
	Steps      int64          `json:"steps"`
	Choices    int64          `json:"choices"`
	SimNS      int64          `json:"sim_ns"`
	Probes     map[string]int `json:"probes"`
	Faults     map[string]int `json:"faults"`
	Distinct   int            `json:"distinct_nontrivial"` // distinct interleaving ids among runs in which a probe fired
	StatesKMV  []uint64       `json:"states_kmv"`          // the kmvK smallest abstract-state hashes (distinct-count sketch)
	StatesSeen int            `json:"states_seen"`         // distinct abstract states seen by this worker
	Reasons    map[string]int `json:"reasons"`
	Installs   int64          `json:"installs"`
	WallS      float64        `json:"wall_s"`
	Samples    []any          `json:"samples,omitempty"`
	Foreign    map[string]int `json:"foreign_oracle_hits,omitempty"`
	KnownHits  map[string]int `json:"known_hits,omitempty"`
}

func main() {
	prop := flag.String("prop", "", "property id")
	seed := flag.Uint64("seed", 1, "VERIF_SEED")
	from := flag.Int("from", 0, "first run index")
	n := flag.Int("n", 100, "number of runs")
	replay := flag.String("replay", "", "replay file")
	dump := flag.Bool("dump", false, "print the scenario of run -from and exit")
	verbose := flag.Bool("v", false, "keep and print the schedule log")
	perRun := flag.Bool("trace", false, "print one line per run: index, interleaving id, steps (determinism self-test)")
	knownPath := flag.String("known", "", "known_findings.json: violations matching a listed finding are counted, not reported")
	sets := flag.String("sets", "", "file receiving the interleaving ids of non-trivial runs (raw little-endian uint64)")
	flag.Parse()
	shadowConfig() // an earlier component of the process has loaded its own config through dials

	if *replay != "" {
		os.Exit(doReplay(*replay, *verbose))
	}
	if *dump {
		b, _ := json.MarshalIndent(generate(*prop, *seed, *from), "", " ")
		fmt.Println(string(b))
		return
	}
	known := loadKnown(*knownPath, *prop)
	sum := &summary{KnownHits: map[string]int{}, Prop: *prop, From: *from, N: *n, Probes: map[string]int{}, Faults: map[string]int{}, Reasons: map[string]int{}, Foreign: map[string]int{}}
	hashes := map[uint64]struct{}{}
	states := map[uint64]struct{}{}
	start := time.Now()
	enc := json.NewEncoder(os.Stdout)
	for i := *from; i < *from+*n; i++ {
		fmt.Printf("R %d\n", i)
		sc := generate(*prop, *seed, i)
		res := execute(sc, false)
		if res.Infra != "" {
			enc.Encode(map[string]any{"infra": res.Infra, "run": i, "seed": sc.Seed})
			os.Exit(2)
		}
		sum.Runs++
		if *perRun {
			fmt.Printf("H %d %016x %d %d %v\n", i, res.Hash, res.Steps, res.NChoices, len(res.Viol))
		}
		if sc.Faulty {
			sum.Faulty++
		} else {
			sum.FaultFree++
		}
		sum.Steps += int64(res.Steps)
		sum.Choices += int64(res.NChoices)
		sum.SimNS += res.SimNS
		sum.Installs += int64(res.Installs)
		sum.Reasons[res.Reason]++
		nontrivial := false
		for k, v := range res.Probes {
			sum.Probes[k] += v
			if v > 0 {
				nontrivial = true
			}
		}
		for k, v := range res.Faults {
			sum.Faults[k] += v
		}
		if nontrivial {
			hashes[res.Hash] = struct{}{}
		}
		for h := range res.States {
			states[h] = struct{}{}
		}
		var mine []Violation
		for _, v := range res.Viol {
			if owns(*prop, v.Oracle) {
				if k := known.match(v); k != "" {
					sum.KnownHits[k]++
					continue
				}
				mine = append(mine, v)
			} else {
				sum.Foreign[v.Oracle]++
			}
		}
		if len(mine) > 0 {
			sc.Choices = res.Made
			enc.Encode(map[string]any{"violation": mine[0], "all": mine, "run": i, "scenario": sc})
			os.Exit(1)
		}
		if len(sum.Samples) < 2 && nontrivial {
			sum.Samples = append(sum.Samples, map[string]any{"run": i, "scenario": sc, "steps": res.Steps, "interleaving": fmt.Sprintf("%016x", res.Hash), "probes": res.Probes})
		}
	}
	sum.Distinct = len(hashes)
	if *sets != "" {
		buf := make([]byte, 0, 8*len(hashes))
		for h := range hashes {
			buf = binary.LittleEndian.AppendUint64(buf, h)
		}
		os.WriteFile(*sets, buf, 0644)
	}
	sum.StatesSeen = len(states)
	for h := range states {
		sum.StatesKMV = append(sum.StatesKMV, h)
	}
	sort.Slice(sum.StatesKMV, func(a, b int) bool { return sum.StatesKMV[a] < sum.StatesKMV[b] })
	if len(sum.StatesKMV) > kmvK {
		sum.StatesKMV = sum.StatesKMV[:kmvK]
	}
	sum.WallS = time.Since(start).Seconds()
	profStop()
	enc.Encode(map[string]any{"summary": sum})
}

// doReplay executes a replay file: exit 1 and the violation when it
// reproduces, 0 when the run is clean, 2 on trouble.
func doReplay(path string, verbose bool) int {
	b, err := os.ReadFile(path)
	if err != nil {
		fmt.Fprintln(os.Stderr, err)
		return 2
	}
	var rf struct {
		Property string    `json:"property"`
		Oracle   string    `json:"oracle"`
		Scenario *Scenario `json:"scenario"`
	}
	if err := json.Unmarshal(b, &rf); err != nil || rf.Scenario == nil {
		fmt.Fprintln(os.Stderr, "bad replay file:", err)
		return 2
	}
	res := execute(rf.Scenario, verbose)
	if res.Infra != "" {
		fmt.Fprintln(os.Stderr, "infra:", res.Infra)
		return 2
	}
	if verbose {
		for _, l := range res.Log {
			fmt.Println(l)
		}
	}
	out := map[string]any{"hash": fmt.Sprintf("%016x", res.Hash), "steps": res.Steps}
	var mine []Violation
	for _, v := range res.Viol {
		if owns(rf.Scenario.Prop, v.Oracle) {
			mine = append(mine, v)
		}
	}
	out["violations"] = mine
	out["choices"] = res.Made
	enc := json.NewEncoder(os.Stdout)
	enc.Encode(out)
	if len(mine) > 0 {
		return 1
	}
	return 0
}

// knownFindings is /verif/known_findings.json: genuine defects of the tree
// that are recorded rather than repaired. A violation is suppressed only when
// property, oracle and the message pattern all match; the file is never
// written at run time.
type knownFinding struct {
	Property string `json:"property"`
	Oracle   string `json:"oracle"`
	Match    string `json:"match"` // regular expression over the violation message
	What     string `json:"what"`
	re       *regexp.Regexp
}

type knownSet []knownFinding

func loadKnown(path, prop string) knownSet {
	if path == "" {
		return nil
	}
	b, err := os.ReadFile(path)
	if err != nil {
		return nil
	}
	var f struct {
		Known []knownFinding `json:"known"`
	}
	if err := json.Unmarshal(b, &f); err != nil {
		fmt.Fprintln(os.Stderr, "bad known_findings.json:", err)
		os.Exit(2)
	}
	var out knownSet
	for _, k := range f.Known {
		if k.Property != prop {
			continue
		}
		k.re = regexp.MustCompile(k.Match)
		out = append(out, k)
	}
	return out
}

func (ks knownSet) match(v Violation) string {
	for _, k := range ks {
		if k.Oracle == v.Oracle && k.re.MatchString(v.Msg) {
			return k.What
		}
	}
	return ""
}
