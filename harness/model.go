package main

import (
	"errors"
	"time"
)

// ---- reference model of stacking (DESIGN §2.6) ----
//
// The fresh-stack oracle compares what the monitor built incrementally with
// what a fresh Config builds from the same values - with the library's own
// code on both sides. A change that is wrong in the same way on both paths
// (a stacking error that gets lost, an overlay rule that changes) is invisible
// to it. modelStack is the independent side: a few lines that say what
// "defaults overlaid by each source's value, in order" means for the corpus'
// leaves, written against the documented behaviour, never against the
// library's code:
//   - a leaf a layer leaves unset (nil) keeps what the lower layers gave it;
//   - a scalar, pointer-to-scalar, slice, map, set, array or text-unmarshaling
//     leaf a layer sets replaces the lower value wholesale (an empty but
//     non-nil slice or map counts as set);
//   - nested, embedded and pointed-to structs are overlaid leaf by leaf;
//   - a value that cannot be assigned to its field makes the stack fail.

var errModelUnstackable = errors.New("reference model: a layer holds a value that cannot be assigned to its field")

// modelStack builds the expected config from the defaults and one Part per
// source (nil: that source sets nothing), in stacking order.
func modelStack(defaults *Part, parts []*Part) (*CfgCore, error) {
	c := defaultsFrom(defaults)
	for owner, p := range parts {
		if p == nil {
			continue
		}
		if p.BadIface {
			return nil, errModelUnstackable
		}
		applyPart(c, p, owner)
	}
	return c, nil
}

func applyPart(c *CfgCore, p *Part, owner int) {
	if owner >= 0 && p.ID != 0 {
		switch owner {
		case 0:
			c.StampA = p.ID
		case 1:
			c.StampB = p.ID
		case 2:
			c.StampC = p.ID
		case 3:
			c.StampD = p.ID
		}
	}
	if p.I != nil {
		c.I = *p.I
	}
	if p.S != nil {
		c.S = *p.S
	}
	if p.Dur != nil {
		c.Dur = time.Duration(*p.Dur)
	}
	if p.F != nil {
		c.F = *p.F
	}
	if p.B != nil {
		c.B = *p.B
	}
	if p.P != nil {
		x := *p.P
		c.P = &x
	}
	if p.Strs != nil {
		c.Strs = cloneStrs(p.Strs)
	}
	if p.M != nil {
		c.M = cloneM(p.M)
	}
	if p.Set != nil {
		c.Set = map[string]struct{}{}
		for _, k := range p.Set {
			c.Set[k] = struct{}{}
		}
	}
	if p.SM != nil {
		c.SM = make([]map[string]int, len(p.SM))
		for i, m := range p.SM {
			c.SM[i] = cloneM(m)
		}
	}
	if p.MM != nil {
		c.MM = map[string][]string{}
		for k, l := range p.MM {
			c.MM[k] = cloneStrs(l)
		}
	}
	if p.MA != nil {
		c.MA = buildMA(p.MA)
	}
	if p.KP != nil {
		c.KP = buildKP(p.KP)
	}
	if p.Sh != nil {
		c.Sh = buildSh(p.Sh)
	}
	if p.Pairs != nil {
		c.Pairs = buildPairs(p.Pairs)
	}
	if len(p.Arr) == 2 {
		c.Arr = [2]string{p.Arr[0], p.Arr[1]}
	}
	if p.When != nil {
		c.When = mustTime(*p.When)
	}
	if p.Peers != nil {
		c.Peers = buildPeers(p.Peers)
	}
	if p.PM != nil {
		c.PM = buildPM(p.PM)
	}
	if p.PWhen != nil {
		t := mustTime(*p.PWhen)
		c.PWhen = &t
	}
	if p.TU != nil {
		c.TU = buildTU(*p.TU)
	}
	if p.Chain > 0 {
		c.Chain = buildDeep(int(p.ID))
	}
	if p.Held != nil {
		h := buildHeld(*p.Held)
		if c.HeldP == nil {
			c.HeldP = &Held{}
		}
		c.HeldP.M, c.HeldP.L = h.M, h.L
	}
	if p.NestS != nil {
		c.Nest.S = *p.NestS
	}
	if p.NestN != nil {
		c.Nest.N = *p.NestN
	}
	if p.NestX != nil {
		x := *p.NestX
		c.Nest.X = &x
	}
	if p.Share && p.P != nil && p.NestX != nil {
		c.Nest.X = c.P // the layer put one pointer into both leaves
	}
	if p.PNS != nil || p.PNN != nil {
		if c.PN == nil {
			c.PN = &Nested{}
		}
		if p.PNS != nil {
			c.PN.S = *p.PNS
		}
		if p.PNN != nil {
			c.PN.N = *p.PNN
		}
	}
	if p.EmbA != nil {
		c.EmbA = *p.EmbA
	}
	if p.EmbS != nil {
		c.EmbS = *p.EmbS
	}
	if p.EmbM != nil {
		c.Emb.M = cloneM(p.EmbM)
	}
	if p.After != nil {
		c.After = *p.After
	}
	if p.Iface != nil {
		c.Iface = label{L: *p.Iface}
	}
	if p.Lo != nil {
		c.Lo = *p.Lo
	}
	if p.Hi != nil {
		c.Hi = *p.Hi
	}
	if p.Forbidden != nil {
		c.Forbidden = *p.Forbidden
	}
}
