package main

import (
	"errors"
	"fmt"
	"sort"
	"strings"

	"simrt"
)

// owns reports whether oracle id belongs to the property under check. crash
// and stuck verdicts belong to whichever property's workload met them
// (DESIGN §2.3).
func owns(prop, oracle string) bool {
	if strings.HasPrefix(oracle, prop+".") || oracle == "crash" || oracle == "stuck" {
		return true
	}
	switch prop {
	case "C05":
		// "the current view deeply equals what a fresh Config call would build
		// ... (or the last view that verified, if that stack does not)": a view
		// that is visible without having verified, while verification is
		// active, is neither
		return oracle == "C04.visible-unverified"
	case "C04":
		// "an update whose stacked result fails to stack or verify is not
		// installed": what the stacked result of an update IS, is the fresh
		// stack of the slots at that moment (a version built on a stale slot is
		// an update installed although its real stack may have been rejected)
		return oracle == "C05.stale-slot" || oracle == "C05.fresh-stack" || oracle == "C05.model"
	case "C07":
		// "when stacking or verification of that value fails, it returns that
		// error and the view is unchanged": a nil return with an unverified
		// version installed is that clause broken
		// ("the reported value has been stacked and the resulting config is what
		// View returns": the result of stacking is the stack of ALL slots as they
		// are at that moment - a version composed from a stale slot, or differing
		// from the fresh stack, is not it, and a nil return for it hides a stack
		// that may not have verified)
		return oracle == "C04.visible-unverified" || oracle == "C05.stale-slot" || oracle == "C05.fresh-stack" || oracle == "C05.model"
	case "C09":
		// "OnWatchedError ... withheld only while the delay is in force and the
		// suppress option is set": rejections after enabling must be delivered
		return oracle == "C04.on-watched-error"
	case "C17", "C18":
		// "the view converges to the config decoded from the final content" is
		// the fresh-stack / no-lost-update oracle with the file as one source
		return oracle == "C05.fresh-stack" || oracle == "C05.lost-update" || oracle == "C05.stale-slot"
	}
	return false
}

// verifyActiveFromStart: verification is active for the initial stack.
func (r *Run) verifyAtConfig() bool { return !r.sc.Skip && !r.sc.Delay }

// oracleConfig: C04(b) Config fails iff the initial stack does not verify (and
// verification is active) or a source failed; errors of sources are propagated.
func (r *Run) oracleConfig() {
	var st [4]uint64
	srcFail := false
	for i, s := range r.sc.Sources {
		if s.Init != nil {
			st[i] = s.Init.ID
		}
		if s.ValueErr || s.WatchErr {
			srcFail = true
		}
	}
	if srcFail {
		if r.cfgErr == nil {
			r.fail("C20.error-swallowed", "a source failed in Value/Watch but Config returned no error")
		}
		return
	}
	f := r.fresh(st)
	switch {
	case f.err != nil:
		if r.cfgErr == nil {
			r.fail("C04.config-error", "initial stack cannot be composed (%v) but Config succeeded", f.err)
		}
	case !f.valid && r.verifyAtConfig():
		r.probe("initial-invalid")
		if r.cfgErr == nil {
			r.fail("C04.config-error", "initial stack does not verify but Config returned a Dials")
		} else if !errors.Is(r.cfgErr, errVerify) {
			r.fail("C04.config-error", "Config failed, but not with the Verify error: %v", r.cfgErr)
		}
		if r.d != nil {
			r.fail("C04.config-error", "Config returned both an error and a Dials")
		}
	default:
		if r.cfgErr != nil {
			r.fail("C04.config-error", "initial stack is acceptable (valid=%v skip=%v delay=%v) but Config failed: %v", f.valid, r.sc.Skip, r.sc.Delay, r.cfgErr)
		}
	}
}

func (r *Run) crashOracle() {
	for _, c := range r.sim.Crashes {
		r.fail("crash", "task %s panicked at step %d: %s\n%s", c.Task, c.Step, c.Value, c.Stack)
	}
	r.sim.Crashes = nil
}

// stuckOracle: global quiescence while a client operation whose context has
// not ended is still outstanding is a deadlock; an operation outstanding past
// the end of its context blocks longer than it may.
func (r *Run) stuckOracle(reason, settle simrt.Reason) {
	for _, w := range r.sim.MutexWaiters() {
		r.fail("stuck", "mutex deadlock: %s", w)
	}
	if reason == simrt.Done {
		return
	}
	if reason == simrt.StepCap {
		return
	}
	// not all clients finished and nothing can run
	var lines []string
	for _, t := range r.sim.Tasks() {
		if t.State != simrt.Exited {
			lines = append(lines, fmt.Sprintf("%s: %s at %q", t.Name, t.State, t.Label))
		}
	}
	for _, op := range r.ops {
		if op.Return != 0 {
			continue
		}
		ended := op.ctx != nil && op.ctx.Err() != nil
		if ended {
			r.fail("stuck", "%s op %d (%s) is still blocked although its context has ended\n%s", op.Client, op.Idx, op.K, strings.Join(lines, "\n"))
		} else {
			r.fail("stuck", "deadlock: %s op %d (%s) never returned and nothing can run (its context has not ended)\n%s", op.Client, op.Idx, op.K, strings.Join(lines, "\n"))
		}
		return
	}
	r.fail("stuck", "clients did not finish (%d/%d) and nothing can run\n%s", r.finished, r.clients, strings.Join(lines, "\n"))
}

// leakOracle: every goroutine the library started has exited.
func (r *Run) leakOracle(when string) {
	if r.ctx.Err() != nil {
		for _, st := range r.srcs {
			if st.innerCtx != nil && st.innerCtx.Err() == nil {
				r.fail("C08.leak", "%s: the watching source set on the Blank of slot %d was started under a context that is still live although the Config context has ended: that watcher (its goroutine, its descriptors) never stops", when, st.idx)
			}
		}
	}
	for _, t := range r.sim.Tasks() {
		if t.Lib && t.State != simrt.Exited {
			if r.sc.GlobalCB == "block" && r.probes["callback-blocked"] > 0 && strings.HasPrefix(t.Name, "cb_mgr.go") {
				continue // inside a user callback that never returns
			}
			r.fail("C08.leak", "library goroutine %s still %s at %q %s", t.Name, t.State, t.Label, when)
		}
	}
}

func (r *Run) endOracles() {
	r.oracleC05()
	r.oracleC04()
	r.oracleC06()
	r.oracleC07()
	r.oracleC09()
	if r.sc.Prop == "C02" {
		r.oracleC02()
	}
	if r.file != nil {
		r.oracleC17()
	}
}

// verifyActiveAt reports whether re-stacks processed at step are verified.
// For delayed runs this is known only approximately; callers that need
// certainty use enabledAt (the return step of the first successful enable).
func (r *Run) verifying(step int) (active, known bool) {
	if !r.sc.Delay {
		return true, true
	}
	firstOK, firstTry := 0, 0
	for _, op := range r.ops {
		if op.K != "enable" {
			continue
		}
		if firstTry == 0 || op.Invoke < firstTry {
			firstTry = op.Invoke
		}
		if op.Return != 0 && op.Err == nil && (firstOK == 0 || op.Return < firstOK) {
			firstOK = op.Return
		}
	}
	switch {
	case firstTry == 0 || step < firstTry:
		return false, true
	case firstOK != 0 && step >= firstOK:
		return true, true
	}
	return false, false
}

type progPos struct {
	client string
	idx    int
}

// ---- C05 ----

func (r *Run) oracleC05() {
	if len(r.installs) == 0 {
		return
	}
	// program position of every part, for per-source monotonicity: the latest
	// operation that sent it (a part may be reported again) and the earliest
	pos := map[uint64]progPos{}
	first := map[uint64]int{}
	sends := map[uint64][]progPos{}
	for _, op := range r.ops {
		if op.PartID == 0 || (op.K != "report" && op.K != "breport" && op.K != "setsource") {
			continue
		}
		sends[op.PartID] = append(sends[op.PartID], progPos{op.Client, op.Idx})
		if p, ok := pos[op.PartID]; !ok || op.Idx > p.idx {
			pos[op.PartID] = progPos{op.Client, op.Idx}
		}
		if f, ok := first[op.PartID]; !ok || op.Idx < f {
			first[op.PartID] = op.Idx
		}
	}
	for i, in := range r.installs {
		f := r.fresh(in.Stamps)
		switch {
		case f.err != nil:
			r.fail("C05.fresh-stack", "version serial=%d (stamps %v, step %d) was installed although a fresh stack of the same source values fails: %v", in.Serial, in.Stamps, in.Step, f.err)
		case f.fp != in.FP && r.tornReadExplains(in):
			r.probe("torn-read-decoded-and-installed")
		case f.fp != in.FP:
			r.fail("C05.fresh-stack", "version serial=%d (stamps %v, step %d) differs from a fresh stack of the same defaults and source values\n incremental: %s\n fresh:       %s", in.Serial, in.Stamps, in.Step, in.FP, f.fp)
		}
		for s := 0; s < len(r.sc.Sources) && s < 4; s++ {
			if r.file != nil && s == r.file.idx && r.tornReadExplains(in) {
				continue
			}
			if in.Stamps[s] != 0 && r.parts[in.Stamps[s]] == nil {
				r.fail("C05.fresh-stack", "version serial=%d carries stamp %d for source %d that no source ever produced", in.Serial, in.Stamps[s], s)
			} else if in.Stamps[s] != 0 && r.owner[in.Stamps[s]] != s {
				r.fail("C05.fresh-stack", "version serial=%d carries source %d's value in source %d's slot", in.Serial, r.owner[in.Stamps[s]], s)
			}
		}
		if i == 0 {
			if in.Serial != 0 {
				r.fail("C05.serial", "the first version has serial %d, want 0", in.Serial)
			}
			continue
		}
		prev := r.installs[i-1]
		if in.Serial != prev.Serial+1 {
			r.fail("C05.serial", "version installed at step %d has serial %d, predecessor (step %d) has %d", in.Step, in.Serial, prev.Step, prev.Serial)
		}
		for s := 0; s < 4; s++ {
			a, b := pos[prev.Stamps[s]], pos[in.Stamps[s]]
			if prev.Stamps[s] == in.Stamps[s] {
				continue
			}
			if r.file != nil && s == r.file.idx {
				continue // a file's content is whatever was read, torn reads included (tornReadExplains)
			}
			_, resent := pos[in.Stamps[s]]
			if in.Stamps[s] == 0 || (r.sc.Sources[s].Init != nil && in.Stamps[s] == r.sc.Sources[s].Init.ID && !resent) {
				r.fail("C05.stale-slot", "source %d went back from report %d to its initial value in version serial=%d", s, prev.Stamps[s], in.Serial)
			} else if init := r.sc.Sources[s].Init; init != nil && prev.Stamps[s] == init.ID {
				// leaving the initial value is always forward, whenever it was reported again
			} else if a.client != "" && b.client != "" && !forward(sends[prev.Stamps[s]], sends[in.Stamps[s]]) {
				r.fail("C05.stale-slot", "source %d went back from report #%d to report #%d of %s in version serial=%d", s, a.idx, b.idx, a.client, in.Serial)
			}
		}
	}
	r.staleSlots(pos)
	// readers
	lastIdx := map[string]int{}
	lastEv := map[string]int{}
	for _, op := range r.ops {
		if op.Cfg == nil || op.Return == 0 {
			continue
		}
		switch op.K {
		case "view", "vv", "events":
		default:
			continue
		}
		idx, ok := r.byPtr[op.Cfg]
		if !ok {
			r.fail("C05.pair", "%s obtained config %p (step %d..%d) that was never the installed version", op.Client, op.Cfg, op.Invoke, op.Return)
			continue
		}
		in := r.installs[idx]
		if op.K == "vv" && in.Serial != op.Serial {
			r.fail("C05.pair", "%s read config of serial %d together with serial %d", op.Client, in.Serial, op.Serial)
		}
		if op.K != "events" {
			if in.Step > op.Return {
				r.fail("C05.pair", "%s read a version at steps %d..%d that was installed only at step %d", op.Client, op.Invoke, op.Return, in.Step)
			}
			if idx+1 < len(r.installs) && r.installs[idx+1].Step < op.Invoke {
				r.fail("C05.monotone", "%s read version serial=%d at steps %d..%d although serial=%d had been installed at step %d", op.Client, in.Serial, op.Invoke, op.Return, r.installs[idx+1].Serial, r.installs[idx+1].Step)
			}
			if prev, ok := lastIdx[op.Client]; ok && idx < prev {
				r.fail("C05.monotone", "%s saw the serial go backwards: %d then %d", op.Client, r.installs[prev].Serial, in.Serial)
			}
			lastIdx[op.Client] = idx
			if idx+1 < len(r.installs) && r.installs[idx+1].Step <= op.Return {
				r.probe("install-during-read")
			}
		} else {
			if prev, ok := lastEv[op.Client]; ok && idx <= prev {
				r.fail("C05.monotone", "%s saw Events go backwards or repeat: serial %d then %d", op.Client, r.installs[prev].Serial, in.Serial)
			}
			lastEv[op.Client] = idx
		}
	}
	r.noLostUpdate()
	if r.sc.Prop == "C05" {
		r.linearizability()
	}
}

// candidates returns the ids the slot of source s may hold once everything
// has been processed.
func (r *Run) slotCandidates(s int) []uint64 {
	st := r.srcs[s]
	var init uint64
	if st.spec.Init != nil {
		init = st.spec.Init.ID
	}
	set := map[uint64]bool{}
	anySure := false
	for _, ss := range st.subs {
		if ss.has {
			set[ss.sure] = true
			anySure = true
		}
		for _, m := range ss.maybes {
			set[m] = true
		}
	}
	if !anySure {
		set[init] = true
	}
	var out []uint64
	for id := range set {
		out = append(out, id)
	}
	sort.Slice(out, func(a, b int) bool { return out[a] < out[b] })
	return out
}

func (r *Run) noLostUpdate() {
	active, known := r.verifying(r.sim.Step())
	if !known || r.convergenceExcused() != "" {
		return
	}
	final := r.installs[len(r.installs)-1]
	cands := make([][]uint64, 4)
	combos := 1
	for s := 0; s < 4; s++ {
		if r.file != nil && s == r.file.idx {
			var state string
			cands[s], state = r.fileCandidates()
			if state != "known" {
				// final content unreadable or malformed: the slot keeps whatever
				// was decoded last (possibly a torn read); oracleC17 checks that
				// case (last good config kept, error reported)
				return
			}
		} else if s < len(r.srcs) {
			cands[s] = r.slotCandidates(s)
		} else {
			cands[s] = []uint64{0}
		}
		combos *= len(cands[s])
	}
	if combos > 64 {
		return
	}
	var tried []string
	for n := 0; n < combos; n++ {
		var st [4]uint64
		k := n
		for s := 0; s < 4; s++ {
			st[s] = cands[s][k%len(cands[s])]
			k /= len(cands[s])
		}
		f := r.fresh(st)
		if f.err != nil || (active && !f.valid) {
			// the final stack is not installable: the view stays at the last good version
			r.probe("final-stack-rejected")
			return
		}
		if final.Stamps == st && final.FP == f.fp {
			if combos == 1 {
				r.probe("final-stack-checked")
			}
			return
		}
		if final.Stamps == st && r.tornReadExplains(final) {
			return
		}
		tried = append(tried, fmt.Sprint(st))
	}
	r.fail("C05.lost-update", "after all reports were processed the view has stamps %v (serial %d), but the sources' last reported values are %s and their fresh stack verifies", final.Stamps, final.Serial, strings.Join(tried, " or "))
}

// staleSlots: a version composed after a report of source s was received must
// not carry an older report of s. "Composed after" is established through
// another part of the same version whose report was invoked only after the
// first one had returned.
func (r *Run) staleSlots(pos map[uint64]progPos) {
	opOf := map[uint64]*OpRec{}
	reporters := map[int]int{}
	for _, c := range r.sc.Clients {
		if c.Kind == "reporter" || c.Kind == "blank" {
			reporters[c.Src]++
		}
	}
	for _, op := range r.ops {
		if op.Src >= len(r.sc.Sources) {
			continue // (a run without any source)
		}
		if init := r.sc.Sources[op.Src].Init; init != nil && init.ID == op.PartID {
			continue // the initial value was in its slot from the start, whenever it is reported again
		}
		if op.PartID != 0 && (op.K == "report" || op.K == "breport" || op.K == "setsource") {
			if prev, ok := opOf[op.PartID]; !ok || op.Invoke < prev.Invoke {
				opOf[op.PartID] = op // the first submission of that part (it may be reported again later)
			}
		}
	}
	for _, in := range r.installs[1:] {
		tau := 0
		for s := 0; s < 4; s++ {
			if op := opOf[in.Stamps[s]]; op != nil && op.Invoke > tau {
				tau = op.Invoke
			}
		}
		for _, op := range r.ops {
			if op.PartID == 0 || op.Return == 0 || op.Return >= tau || reporters[op.Src] != 1 {
				continue
			}
			switch op.K {
			case "report":
				if op.Err != nil {
					continue
				}
			case "breport", "setsource":
				if op.Err != nil && (isCtxErr(op.Err) || op.Str == "fail") {
					continue
				}
				if op.K == "setsource" && op.Err != nil {
					continue
				}
			default:
				continue
			}
			have := pos[in.Stamps[op.Src]]
			if in.Stamps[op.Src] == op.PartID {
				continue
			}
			if later, ok := pos[op.PartID]; ok && later.idx != op.Idx {
				continue // that part was submitted more than once: which submission is meant is ambiguous
			}
			if have.client == "" || have.idx < op.Idx {
				r.fail("C05.stale-slot", "version serial=%d (step %d) carries report %d of source %d although the later report %d of that source had been received by step %d, before the version was composed (it also carries a report first submitted at step %d)", in.Serial, in.Step, in.Stamps[op.Src], op.Src, op.PartID, op.Return, tau)
				return
			}
		}
	}
}

// forward: can a slot legitimately go from a value sent by the operations
// `from` to a value sent by the operations `to`? Yes when some send of the new
// value comes from another client than every send of the old one (concurrent
// reporters), or follows a send of the old value in the same client's program.
func forward(from, to []progPos) bool {
	for _, b := range to {
		other := true
		for _, a := range from {
			if a.client == b.client {
				other = false
				if b.idx > a.idx {
					return true
				}
			}
		}
		if other {
			return true
		}
	}
	return false
}
