package main

import (
	"os"
	"reflect"
	"simrt"

	"context"
	"errors"
	"fmt"
	"strings"
)

// keepUp: the callback queue can never have overflowed in this run. The bound
// is (events that may have been submitted so far) - (events the callback
// goroutine has dequeued), sampled after every step.
func (r *Run) keepUp() bool { return r.maxQueue <= r.keepBound() }

// queueCap: the capacity of the library's callback queue, observed on the
// Dials value of this run (64 on the pinned tree; a tree that changes it is
// judged against what it actually has). keepBound: the occupancy bound below
// which no event can have been dropped, an eighth of it.
func (r *Run) queueCap() int {
	if r.qcap == 0 {
		r.qcap = 64
		if r.d != nil {
			if f := reflect.ValueOf(r.d).Elem().FieldByName("cbch"); f.IsValid() && f.Kind() == reflect.Chan && f.Cap() > 0 {
				r.qcap = f.Cap()
			}
		}
	}
	return r.qcap
}

func (r *Run) keepBound() int { return r.queueCap() / 8 }

func (r *Run) noteQueue() {
	produced := 0
	for _, op := range r.ops {
		switch op.K {
		case "report", "breport", "setsource", "err", "register", "unregister":
			produced++
		}
	}
	consumed := 0
	for l, n := range r.sim.Released {
		if strings.HasPrefix(l, "cb_mgr.go") && strings.HasSuffix(l, "range-body") {
			consumed += n
		}
	}
	// when the callback goroutine is blocked in its receive, the queue is
	// empty whatever was dropped before: the bound restarts from zero there
	for _, t := range r.sim.Tasks() {
		if t.Lib && t.State == simrt.Running && strings.HasPrefix(t.Name, "cb_mgr.go") && strings.HasSuffix(t.Label, " select") {
			r.queueOffset = produced - consumed
		}
	}
	q := produced - consumed - r.queueOffset
	if q > r.maxQueue {
		r.maxQueue = q
	}
	if n := len(r.queueSeries); n == 0 || r.queueSeries[n-1].bound != q {
		r.queueSeries = append(r.queueSeries, queuePoint{r.sim.Step(), q})
	}
}

// queueNow: the current bound on the callback queue's occupancy.
func (r *Run) queueNow() int {
	if n := len(r.queueSeries); n > 0 {
		return r.queueSeries[n-1].bound
	}
	return 0
}

var dbgQ = os.Getenv("DBGQ") != ""

type queuePoint struct{ step, bound int }

// keptUpSince: from step on the callback queue can never have overflowed
// (the occupancy bound stayed at or below 8), even if it did before.
func (r *Run) keptUpSince(step int) bool {
	cur := 0
	for _, p := range r.queueSeries {
		if p.step <= step {
			cur = p.bound
			continue
		}
		if p.bound > r.keepBound() {
			return false
		}
	}
	return cur <= r.keepBound()
}

// cancelStep: the step at which the Config context was cancelled while the
// clients were still at work (0: it was not).
func (r *Run) cancelStep() int {
	for _, op := range r.ops {
		if op.K == "cancel-config" {
			return op.Invoke
		}
	}
	return 0
}

// sure: whatever the monitor did at or before step had its callback event
// submitted before the Config context ended. Once that context has ended the
// monitor's (non-blocking) submission may pick the context case and drop the
// event, so delivery of the last things it did is not owed. Evidence that the
// monitor went on to a later iteration before the cancellation: a later
// install, or a blocking report invoked later that it answered.
func (r *Run) sure(step int) bool {
	c := r.cancelStep()
	if c == 0 {
		return true
	}
	for _, in := range r.installs {
		if in.Step > step && in.Step < c {
			return true
		}
	}
	for _, op := range r.ops {
		if op.K == "breport" && op.Invoke > step && op.Return != 0 && op.Return < c && !isCtxErr(op.Err) {
			return true
		}
	}
	return false
}

func (r *Run) pred(idx int) *CfgCore {
	if idx <= 0 {
		return nil
	}
	return r.installs[idx-1].Ptr
}

// isEnableVerify: a Verify-log entry produced by EnableVerification (it
// verifies the installed config, inside the window of an enable op).
func (r *Run) isEnableVerify(v VerifyRec) bool {
	if _, ok := r.byPtr[v.Ptr]; !ok {
		return false
	}
	return v.Step > 0
}

// ---- C04 ----

// verifiedBefore: Verify accepted this very config, or one with exactly the
// same content (an implementation may verify a candidate and publish a copy
// of it), at or before step.
func (r *Run) verifiedBefore(in Install, step int) bool {
	for _, v := range r.verifies {
		if !v.Failed && v.Step <= step && (v.Ptr == in.Ptr || v.FP == in.FP) {
			return true
		}
	}
	return false
}

func (r *Run) oracleC04() {
	if len(r.installs) == 0 {
		return
	}
	ctxErrEnable := false
	for _, op := range r.ops {
		if op.K == "enable" && op.Err != nil && isCtxErr(op.Err) {
			ctxErrEnable = true
		}
	}
	// (a) every visible version was verified before it became visible
	for i, in := range r.installs {
		var active, known bool
		if i == 0 {
			active, known = r.verifyAtConfig(), true
		} else {
			active, known = r.verifying(in.Step)
			if r.sc.Delay && ctxErrEnable {
				known = false
			}
		}
		if !known || !active {
			continue
		}
		if !in.Valid {
			r.fail("C04.visible-unverified", "version serial=%d (stamps %v) became visible at step %d but does not satisfy Verify (%s)", in.Serial, in.Stamps, in.Step, in.FP)
		}
		if !r.verifiedBefore(in, in.Step) {
			r.fail("C04.visible-unverified", "version serial=%d (stamps %v) became visible at step %d without a successful Verify call on it before that step", in.Serial, in.Stamps, in.Step)
		}
	}
	// a successful EnableVerification switches verification on: what is
	// installed when it returns (and whatever it returned) has passed Verify
	if r.sc.Delay {
		for _, op := range r.ops {
			if op.K != "enable" || op.Return == 0 || op.Err != nil {
				continue
			}
			if cur := r.currentAt(op.Return); cur >= 0 {
				in := r.installs[cur]
				if !in.Valid || !r.verifiedBefore(in, op.Return) {
					r.fail("C04.visible-unverified", "EnableVerification returned successfully at step %d, but the config installed at that moment (serial %d, stamps %v) had not passed Verify (valid=%v)", op.Return, in.Serial, in.Stamps, in.Valid)
				}
			}
			break // the first successful one is the switch-on
		}
	}
	// a version, once visible, never changes: later stacking (in particular of
	// updates that end up rejected) leaves every installed snapshot as it was
	// when it became visible. (C02's runs scribble on versions on purpose.)
	if r.sc.Prop != "C02" {
		for i, in := range r.installs {
			if now := render(in.Ptr); now != in.FP {
				r.fail("C04.view-mutated", "version serial=%d (installed at step %d, %d versions in all) changed after it became visible:\n  then: %s\n  now:  %s", in.Serial, in.Step, len(r.installs)-i, in.FP, now)
				break
			}
		}
	}
	// everything a program observed is an installed version
	for _, op := range r.ops {
		if op.Cfg == nil {
			continue
		}
		if _, ok := r.byPtr[op.Cfg]; !ok {
			r.fail("C04.visible-unverified", "%s %s returned config %p that was never installed", op.Client, op.K, op.Cfg)
		}
	}
	for _, cb := range r.cbs {
		if cb.Kind == "err" || cb.New == nil {
			continue
		}
		if _, ok := r.byPtr[cb.New]; !ok {
			r.fail("C04.visible-unverified", "a %s callback received new config %p (stamps %v) that was never installed", cb.Kind, cb.New, cb.NewStamps)
		}
	}
	// (c) rejected stacks
	rejected := map[[4]uint64]VerifyRec{}
	lastRejection := map[[4]uint64]int{}
	seenCandidate := map[*CfgCore]bool{}
	rejections := map[[4]uint64]int{} // the same stack may be re-built (a value reported again) and rejected again
	for _, v := range r.verifies {
		if !v.Failed || r.isEnableVerify(v) {
			continue
		}
		if seenCandidate[v.Ptr] {
			continue // Verify called again on the same candidate: one rejection
		}
		seenCandidate[v.Ptr] = true
		if _, seen := rejected[v.Stamps]; !seen {
			rejected[v.Stamps] = v
		}
		rejections[v.Stamps]++
		lastRejection[v.Stamps] = v.Step
		f := r.fresh(v.Stamps)
		if f.err == nil && f.valid {
			// the type's Verify rejected a stack the harness predicate accepts: the stack itself is wrong
			r.fail("C04.rejected", "Verify rejected the stack with stamps %v at step %d although a fresh stack of those values verifies", v.Stamps, v.Step)
		}
	}
	for _, in := range r.installs {
		if v, ok := rejected[in.Stamps]; ok && in.Step >= v.Step {
			r.fail("C04.rejected", "the stack with stamps %v was rejected by Verify at step %d but is installed as serial %d at step %d", in.Stamps, v.Step, in.Serial, in.Step)
		}
	}
	if len(rejected) > 0 {
		r.probe("rejection")
	}
	// rejection while the view stays put, and OnWatchedError
	for _, v := range rejected {
		cur := r.currentAt(v.Step)
		if cur < 0 {
			continue
		}
		matches := 0
		for _, cb := range r.cbs {
			if cb.Kind != "err" || !cb.HasNew || cb.NewStamps != v.Stamps {
				continue
			}
			matches++
			if !errors.Is(cb.Err, errVerify) {
				r.fail("C04.on-watched-error", "OnWatchedError for the rejected stack %v got error %v, not the Verify error", v.Stamps, cb.Err)
			}
			if cb.Old != r.installs[cur].Ptr && rejections[v.Stamps] == 1 && (cb.Old == nil || render(cb.Old) != r.installs[cur].FP) {
				r.fail("C04.on-watched-error", "OnWatchedError for the rejected stack %v got oldConfig %p, the current config was %p (serial %d)", v.Stamps, cb.Old, r.installs[cur].Ptr, r.installs[cur].Serial)
			}
			if cb.New != v.Ptr && rejections[v.Stamps] == 1 && (cb.New == nil || render(cb.New) != v.FP) {
				r.fail("C04.on-watched-error", "OnWatchedError for the rejected stack %v got newConfig %p, the rejected config was %p", v.Stamps, cb.New, v.Ptr)
			}
			if cb.Enter < v.Step {
				r.fail("C04.on-watched-error", "OnWatchedError for the rejected stack %v entered at step %d, before the rejection at step %d", v.Stamps, cb.Enter, v.Step)
			}
		}
		n := rejections[v.Stamps]
		if r.keepUp() && r.sc.GlobalCB != "block" && !r.sc.NoGlobalCB && matches != n && r.sure(lastRejection[v.Stamps]) {
			r.fail("C04.on-watched-error", "the stack %v was rejected %d time(s), first at step %d; OnWatchedError was called %d times for it (callbacks kept up: occupancy bound %d)", v.Stamps, n, v.Step, matches, r.maxQueue)
		}
		if matches > n {
			r.fail("C04.on-watched-error", "OnWatchedError was called %d times for %d rejection(s) of stack %v", matches, n, v.Stamps)
		}
	}
	// stack errors: newConfig must be nil, oldConfig an installed version
	for _, cb := range r.cbs {
		if cb.Kind != "err" || cb.HasNew {
			continue
		}
		if cb.Old == nil {
			r.fail("C04.on-watched-error", "OnWatchedError(%v) got a nil oldConfig", cb.Err)
			continue
		}
		idx, ok := r.byPtr[cb.Old]
		if !ok {
			r.fail("C04.on-watched-error", "OnWatchedError(%v) got an oldConfig that was never installed", cb.Err)
			continue
		}
		if r.installs[idx].Step > cb.Enter {
			r.fail("C04.on-watched-error", "OnWatchedError(%v) got an oldConfig installed only later", cb.Err)
		}
	}
	// a stacking failure is reported to OnWatchedError (newConfig nil) unless the
	// callback queue overflowed; while delayed with the suppress option set the
	// state is left to C09's oracles
	if r.keepUp() && r.sc.GlobalCB != "block" && !r.sc.NoGlobalCB {
		firstOK := 0
		for _, op := range r.ops {
			if op.K == "enable" && op.Return != 0 && op.Err == nil && (firstOK == 0 || op.Return < firstOK) {
				firstOK = op.Return
			}
		}
		for _, op := range r.ops {
			if op.K != "breport" || op.Return == 0 || op.Err == nil || isCtxErr(op.Err) || errors.Is(op.Err, errVerify) {
				continue
			}
			if r.sc.Delay && r.sc.Suppress && (firstOK == 0 || op.Invoke <= firstOK || ctxErrEnable) {
				continue
			}
			if !r.sure(op.Return) {
				continue
			}
			found := false
			for _, cb := range r.cbs {
				if cb.Kind == "err" && !cb.HasNew && cb.Enter >= op.Invoke && cb.Err != nil && strings.Contains(cb.Err.Error(), "Iface") {
					found = true
				}
			}
			if !found {
				r.fail("C04.on-watched-error", "%s op %d: the update failed to stack (%v) but OnWatchedError was never given that error although callbacks kept up", op.Client, op.Idx, op.Err)
			}
			r.probe("stack-failure-reported")
		}
	}
	// blocking reports of rejected stacks return the error
	for _, op := range r.ops {
		if (op.K != "breport" && op.K != "setsource") || op.Return == 0 || op.Str == "fail" {
			continue
		}
		r.blockingCoupling(op, "C04.blocking-report")
	}
}

// blockingCoupling checks the result of one blocking report against the
// verify and install logs.
func (r *Run) blockingCoupling(op *OpRec, oracle string) {
	src := op.Src
	if op.Err == nil {
		for _, in := range r.installs {
			if in.Stamps[src] == op.PartID && in.Step <= op.Return {
				return
			}
		}
		r.fail(oracle, "%s op %d: blocking report of part %d (source %d) returned nil at step %d but no version containing it had been installed by then", op.Client, op.Idx, op.PartID, src, op.Return)
		return
	}
	if isCtxErr(op.Err) {
		return
	}
	// a rejection: there must be a failed Verify, or an uncomposable stack, with this part in its slot
	if errors.Is(op.Err, errVerify) {
		for _, v := range r.verifies {
			if v.Failed && v.Stamps[src] == op.PartID && v.Step >= op.Invoke && v.Step <= op.Return {
				return
			}
		}
		r.fail(oracle, "%s op %d: blocking report of part %d returned the Verify error but Verify rejected no stack containing it during steps %d..%d", op.Client, op.Idx, op.PartID, op.Invoke, op.Return)
		return
	}
	if p := r.parts[op.PartID]; p != nil && (p.BadIface || r.badLingers(op)) {
		if strings.Contains(op.Err.Error(), "Iface") {
			return
		}
	}
	r.fail(oracle, "%s op %d: blocking report of part %d returned error %q, which is neither the Verify error nor a stacking error the injected values explain (steps %d..%d)", op.Client, op.Idx, op.PartID, op.Err, op.Invoke, op.Return)
}

// badLingers: some other source may hold an ill-typed value in its slot.
func (r *Run) badLingers(op *OpRec) bool {
	for _, p := range r.parts {
		if p.BadIface {
			return true
		}
	}
	return false
}

// ---- C06 ----

func (r *Run) oracleC06() {
	if len(r.installs) == 0 {
		return
	}
	keep := r.keepUp()
	suppressEver := r.sc.Delay && r.sc.Suppress || r.sc.NoGlobalCB // the global callback does not show every announcement
	// (a) serialized
	for i := 1; i < len(r.cbs); i++ {
		p, c := r.cbs[i-1], r.cbs[i]
		if p.Exit == 0 || p.Exit > c.Enter {
			r.fail("C06.serialized", "callback %s(handle %d) entered at step %d while %s(handle %d), entered at step %d, had not returned (exit %d)", c.Kind, c.Handle, c.Enter, p.Kind, p.Handle, p.Enter, p.Exit)
		}
	}
	// (b) installation order of the global callback
	lastNew := -1
	var globalNew []*CBRec
	for _, cb := range r.cbs {
		if cb.Kind != "new" {
			continue
		}
		globalNew = append(globalNew, cb)
		idx, ok := r.byPtr[cb.New]
		if !ok {
			r.fail("C06.order", "OnNewConfig received a config that was never installed")
			continue
		}
		if idx <= lastNew {
			r.fail("C06.order", "OnNewConfig announced serial %d after serial %d", r.installs[idx].Serial, r.installs[lastNew].Serial)
		} else if keep && !suppressEver && r.sc.GlobalCB != "block" && idx != lastNew+1 && !(lastNew == -1 && idx == 1) && r.sure(r.installs[idx-1].Step) {
			r.fail("C06.skip", "OnNewConfig skipped from serial %d to serial %d although callbacks kept up", serialAt(r, lastNew), r.installs[idx].Serial)
		}
		if cb.Old != r.pred(idx) {
			r.fail("C06.old-config", "OnNewConfig for serial %d received an oldConfig that is not the immediate predecessor", r.installs[idx].Serial)
		}
		if r.installs[idx].Step > cb.Enter {
			r.fail("C06.order", "OnNewConfig for serial %d entered at step %d, before the version was installed (step %d)", r.installs[idx].Serial, cb.Enter, r.installs[idx].Step)
		}
		lastNew = idx
	}
	if keep && !suppressEver && r.sc.GlobalCB != "block" && len(r.installs) > 1 {
		want := 0
		for _, in := range r.installs[1:] {
			if r.sure(in.Step) {
				want++
			}
		}
		if len(globalNew) < want || (len(globalNew) != want && r.cancelStep() == 0) {
			r.fail("C06.skip", "%d versions were installed after the initial one but OnNewConfig was called %d times although callbacks kept up (occupancy bound %d)", want, len(globalNew), r.maxQueue)
		}
	}
	// OnWatchedError for a rejection lies between the OnNewConfig calls of its neighbours
	pos := map[*CBRec]int{}
	for i, cb := range r.cbs {
		pos[cb] = i
	}
	for _, cb := range r.cbs {
		if cb.Kind != "err" || !cb.HasNew {
			continue
		}
		var v *VerifyRec
		for i := range r.verifies {
			if r.verifies[i].Failed && r.verifies[i].Ptr == cb.New {
				v = &r.verifies[i]
			}
		}
		if v == nil {
			continue
		}
		cur := r.currentAt(v.Step)
		for _, g := range globalNew {
			gi := r.byPtr[g.New]
			if gi <= cur && pos[g] > pos[cb] {
				r.fail("C06.order", "OnWatchedError for the stack rejected while serial %d was current ran before OnNewConfig(serial %d)", serialAt(r, cur), r.installs[gi].Serial)
			}
			if gi > cur && pos[g] < pos[cb] {
				r.fail("C06.order", "OnWatchedError for the stack rejected while serial %d was current ran after OnNewConfig(serial %d)", serialAt(r, cur), r.installs[gi].Serial)
			}
		}
	}
	// registered callbacks
	final := r.installs[len(r.installs)-1]
	for _, h := range r.handles {
		var calls []*CBRec
		for _, cb := range r.cbs {
			if cb.Kind == "reg" && cb.Handle == h.id {
				calls = append(calls, cb)
			}
		}
		if !h.registered {
			if len(calls) > 0 {
				r.fail("C06.after-unregister", "handle %d: RegisterCallback returned nil but the callback was invoked %d times", h.id, len(calls))
			}
			continue
		}
		if len(calls) > 0 {
			r.probe("registered-callback-called")
		}
		last := uint64(0)
		hasLast := false
		for ci, cb := range calls {
			idx, ok := r.byPtr[cb.New]
			if !ok {
				r.fail("C06.stale", "handle %d received a config that was never installed", h.id)
				continue
			}
			ser := r.installs[idx].Serial
			if !h.zero && ser <= h.serial {
				r.fail("C06.stale", "handle %d registered with serial %d received serial %d", h.id, h.serial, ser)
			}
			if hasLast && ser <= last {
				r.fail("C06.stale", "handle %d received serial %d after serial %d", h.id, ser, last)
			}
			ordinary := cb.Old == r.pred(idx)
			if ci == 0 && !h.zero && keep && cb.Old != h.serialCfg && r.sure(r.installs[idx].Step) {
				r.fail("C06.catch-up", "handle %d registered with the serial of version %d: its first call (serial %d) got an oldConfig that is not the version it registered with", h.id, h.serial, ser)
			}
			if !ordinary {
				r.probe("catch-up")
				if h.zero {
					r.fail("C06.catch-up", "handle %d registered with the zero serial received a catch-up call (serial %d, oldConfig is not the predecessor)", h.id, ser)
				}
				if ci != 0 {
					r.fail("C06.old-config", "handle %d: call #%d (serial %d) is not the first one but its oldConfig is not the immediate predecessor", h.id, ci, ser)
				}
				if cb.Old != h.serialCfg {
					r.fail("C06.catch-up", "handle %d: catch-up call with an oldConfig that is not the config of the serial it registered with", h.id)
				}
				// must deliver the version most recently announced before it
				if !suppressEver {
					var ann *CBRec
					for _, g := range globalNew {
						if pos[g] < pos[cb] {
							ann = g
						}
					}
					if ann == nil {
						r.fail("C06.catch-up", "handle %d received a catch-up call for serial %d before any version had been announced", h.id, ser)
					} else if ann.New != cb.New {
						r.fail("C06.catch-up", "handle %d: catch-up call delivered serial %d, the most recently announced version was serial %d", h.id, ser, serialOfPtr(r, ann.New))
					}
				}
			}
			if keep && hasLast && ser != last+1 && (idx == 0 || r.sure(r.installs[idx-1].Step)) {
				r.fail("C06.skip", "handle %d received serial %d right after serial %d although callbacks kept up", h.id, ser, last)
			}
			if h.unregOK != 0 && cb.Enter >= h.unregOK {
				r.fail("C06.after-unregister", "handle %d was invoked at step %d, after its unregister function had returned true at step %d", h.id, cb.Enter, h.unregOK)
			}
			last, hasLast = ser, true
		}
		// no skip: everything installed after the registration is delivered
		unregTried := false
		for _, op := range r.ops {
			if op.K == "unregister" && op.Handle == h.id {
				unregTried = true
			}
		}
		if c := r.cancelStep(); c != 0 && h.regReturn >= c {
			// RegisterCallback overlapped the cancellation of the Config context
			// (or came after it): the callback goroutine may already have drained
			// its queue and gone when the registration arrives - accepted or
			// not, nothing is owed to it
			continue
		}
		if keep && !unregTried && r.sc.GlobalCB != "block" {
			// a handle registered with the serial of a version must end up with
			// the final version whichever way round registration and events were
			// processed (ordinary calls, or a catch-up to the last announced one);
			// with the zero serial only what is installed after RegisterCallback
			// returned is owed
			lo := h.serial
			if h.zero {
				lo = h.kAfter
			}
			final := final
			for i := len(r.installs) - 1; i > 0 && !r.sure(final.Step); i-- {
				final = r.installs[i-1]
			}
			if final.Serial > lo && (final.Step > 0 || r.cancelStep() == 0) {
				if !hasLast {
					r.fail("C06.skip", "handle %d (registered with serial %d, serial %d current when RegisterCallback returned) was never called although serial %d was installed later and callbacks kept up", h.id, h.serial, h.kAfter, final.Serial)
				} else if last < final.Serial || (last != final.Serial && r.cancelStep() == 0) {
					r.fail("C06.skip", "handle %d last received serial %d but serial %d was installed and callbacks kept up", h.id, last, final.Serial)
				}
				if len(calls) > 0 && h.zero {
					first := serialOfPtr(r, calls[0].New)
					if first > lo+1 && calls[0].Old == r.pred(r.byPtr[calls[0].New]) {
						r.fail("C06.skip", "handle %d: first (ordinary) call delivered serial %d, but serial %d was installed after the registration", h.id, first, lo+1)
					}
				}
			}
		}
	}
}

func serialAt(r *Run, idx int) uint64 {
	if idx < 0 || idx >= len(r.installs) {
		return 0
	}
	return r.installs[idx].Serial
}

func serialOfPtr(r *Run, p *CfgCore) uint64 {
	if i, ok := r.byPtr[p]; ok {
		return r.installs[i].Serial
	}
	return ^uint64(0)
}

// ---- C07 ----

func (r *Run) oracleC07() {
	multi := map[int]int{}
	for _, c := range r.sc.Clients {
		if c.Kind == "reporter" || c.Kind == "blank" {
			multi[c.Src]++
		}
	}
	for _, op := range r.ops {
		if (op.K != "breport" && op.K != "setsource") || op.Return == 0 {
			continue
		}
		if op.Str == "fail" {
			if op.Err == nil || !errors.Is(op.Err, errSourceValue) {
				r.fail("C07.error", "%s op %d: SetSource of a source whose Value fails returned %v", op.Client, op.Idx, op.Err)
			}
			r.probe("setsource-failing-value")
			continue
		}
		switch {
		case op.Err == nil:
			r.blockingCoupling(op, "C07.read-your-write")
			if cur := r.currentAt(op.Return); cur >= 0 && multi[op.Src] == 1 {
				if r.installs[cur].Stamps[op.Src] != op.PartID {
					r.fail("C07.read-your-write", "%s op %d: blocking report of part %d returned nil at step %d, but the view then holds part %d of that source (no other reporter could have superseded it)", op.Client, op.Idx, op.PartID, op.Return, r.installs[cur].Stamps[op.Src])
				}
			}
			if op.CtxEndedAt != 0 && op.CtxEndedAt < op.Return {
				r.probe("nil-return-after-context-ended")
			}
		case isCtxErr(op.Err):
			if op.ctx.Err() == nil || op.CtxEndedAt == 0 {
				r.fail("C07.context", "%s op %d returned the context error %v although its context had not ended", op.Client, op.Idx, op.Err)
			}
			r.probe("blocking-report-abandoned")
		default:
			r.blockingCoupling(op, "C07.rejection")
			r.probe("blocking-report-rejected")
		}
	}
	// (c') a call whose own context ended while the monitor was busy in a long
	// Verify (and resumed only after everybody else had gone idle) cannot have
	// seen a reply before its context ended: it must return the context error
	for _, op := range r.ops {
		switch op.K {
		case "breport", "setsource", "report", "enable":
		default:
			continue
		}
		if op.Return == 0 || op.Err != nil || op.Deadline.IsZero() {
			continue
		}
		for _, st := range r.stalls {
			if op.Deadline.After(st.from) && op.Deadline.Before(st.to) && !op.ReturnAt.Before(st.to) {
				r.fail("C07.context", "%s op %d (%s) returned nil at %v, %v after its own context's deadline; the monitor was busy in Verify from %v to %v, so no reply can have arrived before the context ended: the call was not bounded by its context", op.Client, op.Idx, op.K, op.ReturnAt.Format("15:04:05.000"), op.ReturnAt.Sub(op.Deadline), st.from.Format("15:04:05.000"), st.to.Format("15:04:05.000"))
			}
		}
	}
	// (d) nobody is left blocked on an abandoned caller: at quiescence no library task sits in a send
	for _, t := range r.sim.Tasks() {
		if t.Lib && t.State == simrt.Running && strings.Contains(t.Label, "send-pre") {
			r.fail("C07.monitor-blocked", "library task %s is blocked in a channel send at %q after all callers have returned", t.Name, t.Label)
		}
	}
}

// ---- C09 ----

func (r *Run) oracleC09() {
	var enables []*OpRec
	indeterminateFrom := 0
	for _, op := range r.ops {
		if op.K != "enable" {
			continue
		}
		enables = append(enables, op)
		if op.Err != nil && isCtxErr(op.Err) && (indeterminateFrom == 0 || op.Invoke < indeterminateFrom) {
			indeterminateFrom = op.Invoke
		}
		if op.Return == 0 && (indeterminateFrom == 0 || op.Invoke < indeterminateFrom) {
			indeterminateFrom = op.Invoke
		}
	}
	if !r.sc.Delay {
		for _, op := range enables {
			if op.Return == 0 || op.Err != nil && isCtxErr(op.Err) {
				continue
			}
			if op.Err != nil {
				r.fail("C09.enable", "EnableVerification without DelayInitialVerification returned %v", op.Err)
			} else if _, ok := r.byPtr[op.Cfg]; !ok {
				r.fail("C09.enable", "EnableVerification without DelayInitialVerification returned a config that is not an installed version (%p)", op.Cfg)
			}
		}
		// no delay is in force, whatever the suppress option says: global
		// callbacks are delivered
		r.suppressionClauses(func(int) (bool, bool) { return false, true })
		return
	}
	firstOK := 0
	for _, op := range enables {
		if op.Return != 0 && op.Err == nil && (firstOK == 0 || op.Return < firstOK) {
			firstOK = op.Return
		}
	}
	inWindow := func(step int) *OpRec {
		for _, op := range enables {
			if op.Return != 0 && step >= op.Invoke && step <= op.Return {
				return op
			}
		}
		return nil
	}
	// (a) never early
	for _, v := range r.verifies {
		if indeterminateFrom != 0 && v.Step >= indeterminateFrom {
			break
		}
		if firstOK != 0 && v.Step >= firstOK {
			break
		}
		op := inWindow(v.Step)
		if op == nil {
			r.fail("C09.never-early", "Verify ran at step %d (stamps %v) while verification was delayed and no EnableVerification call was in progress", v.Step, v.Stamps)
			continue
		}
		if op.Err == nil && v.Ptr == op.Cfg && !v.Failed {
			// the call that switches verification on: everything from its own
			// Verify of the installed config onwards is legitimately verified
			break
		}
		if idx, ok := r.byPtr[v.Ptr]; !ok || r.installs[idx].Step > v.Step {
			r.fail("C09.never-early", "Verify ran on a re-stacked config (stamps %v) at step %d, during an EnableVerification call that failed, i.e. while verification was still delayed", v.Stamps, v.Step)
		}
	}
	// (b)/(c) per enable call
	for _, op := range enables {
		if op.Return == 0 || (op.Err != nil && isCtxErr(op.Err)) {
			r.probe("enable-context-expired")
			continue
		}
		// after an abandoned call it is unknown whether verification is already
		// on; what a call returns must still fit its own window
		indeterminate := indeterminateFrom != 0 && op.Invoke >= indeterminateFrom
		lo, hi := r.currentAt(op.Invoke), r.currentAt(op.Return)
		if lo < 0 {
			lo = 0
		}
		if op.Err == nil {
			r.probe("enable-succeeded")
			idx, ok := r.byPtr[op.Cfg]
			switch {
			case op.Cfg == nil:
				r.fail("C09.atomic-switch", "%s op %d: EnableVerification succeeded but returned a nil config", op.Client, op.Idx)
				continue
			case !ok:
				r.fail("C09.atomic-switch", "%s op %d: EnableVerification returned a config that was never installed", op.Client, op.Idx)
				continue
			}
			in := r.installs[idx]
			if in.Serial != op.Serial {
				r.fail("C09.atomic-switch", "%s op %d: EnableVerification returned config of serial %d with serial %d", op.Client, op.Idx, in.Serial, op.Serial)
			}
			if idx < lo || idx > hi {
				r.fail("C09.atomic-switch", "%s op %d: EnableVerification (steps %d..%d) returned serial %d, which was not the installed version at any point of the call (serials %d..%d were)", op.Client, op.Idx, op.Invoke, op.Return, in.Serial, serialAt(r, lo), serialAt(r, hi))
			}
			if !in.Valid {
				r.fail("C09.atomic-switch", "%s op %d: EnableVerification succeeded on a config that does not verify (serial %d)", op.Client, op.Idx, in.Serial)
			}
			if (op.Return <= firstOK || firstOK == 0) && !indeterminate {
				// the call that switched verification on must have verified exactly this config
				found := false
				for _, v := range r.verifies {
					if v.Ptr == op.Cfg && !v.Failed && v.Step >= op.Invoke && v.Step <= op.Return {
						found = true
					}
				}
				if !found {
					r.fail("C09.atomic-switch", "%s op %d: EnableVerification succeeded (serial %d) without a Verify call on that config during the call", op.Client, op.Idx, in.Serial)
				}
			}
		} else {
			r.probe("enable-failed")
			if !errors.Is(op.Err, errVerify) {
				r.fail("C09.failure", "%s op %d: EnableVerification failed with %v, not the Verify error", op.Client, op.Idx, op.Err)
			}
			if op.Cfg != nil {
				r.fail("C09.failure", "%s op %d: EnableVerification failed but returned a config", op.Client, op.Idx)
			}
			anyInvalid := false
			for i := lo; i <= hi && i < len(r.installs); i++ {
				if !r.installs[i].Valid {
					anyInvalid = true
				}
			}
			if !anyInvalid {
				r.fail("C09.failure", "%s op %d: EnableVerification failed although every version installed during the call (serials %d..%d) verifies", op.Client, op.Idx, serialAt(r, lo), serialAt(r, hi))
			}
			if firstOK != 0 && op.Invoke > firstOK {
				r.fail("C09.failure", "%s op %d: EnableVerification failed after verification had already been enabled successfully", op.Client, op.Idx)
			}
		}
		if lo == hi && lo < len(r.installs) && r.installs[lo].Valid && op.Err != nil {
			r.fail("C09.failure", "%s op %d: EnableVerification failed (%v) although the installed config (serial %d) verifies and did not change during the call", op.Client, op.Idx, op.Err, serialAt(r, lo))
		}
	}
	if firstOK != 0 && indeterminateFrom == 0 {
		// from then on every re-stack is verified
		for _, in := range r.installs {
			if in.Step > firstOK && !r.verifiedBefore(in, in.Step) {
				r.fail("C09.atomic-switch", "version serial=%d was installed at step %d, after EnableVerification had succeeded at step %d, without being verified", in.Serial, in.Step, firstOK)
			}
		}
		if len(enables) > 1 {
			r.probe("enable-retried")
		}
	}
	// (d) suppression
	if indeterminateFrom != 0 {
		return
	}
	firstTry := 0
	for _, op := range enables {
		if firstTry == 0 || op.Invoke < firstTry {
			firstTry = op.Invoke
		}
	}
	delayedAt := func(step int) (bool, bool) { // delayed, known
		switch {
		case firstOK == 0:
			return true, true
		case step >= firstOK:
			return false, true
		}
		// between the invocation of the successful call and its return the switch happens somewhere
		for _, op := range enables {
			if op.Err == nil && op.Return == firstOK && step < op.Invoke {
				return true, true
			}
		}
		return true, false
	}
	r.suppressionClauses(delayedAt)
}

// suppressionClauses: global callbacks are withheld exactly while the delay is
// in force and the suppress option is set (delayedAt: delayed?, known?).
func (r *Run) suppressionClauses(delayedAt func(step int) (bool, bool)) {
	if r.maxQueue > r.queueCap() {
		r.probe("callback-queue-may-have-overflowed")
		if dbgQ {
			first, last := 0, 0
			for _, p := range r.queueSeries {
				if p.bound > r.queueCap() {
					if first == 0 {
						first = p.step
					}
					last = p.step
				}
			}
			msg := fmt.Sprintf("DBGQ over64 steps %d..%d of %d delay=%v suppress=%v global=%s:", first, last, r.sim.Step(), r.sc.Delay, r.sc.Suppress, r.sc.GlobalCB)
			for _, op := range r.ops {
				if op.K == "enable" {
					msg += fmt.Sprintf(" enable[%d,%d err=%v]", op.Invoke, op.Return, op.Err)
				}
			}
			println(msg)
		}
	}
	globalObservable := r.sc.GlobalCB != "block" && !r.sc.NoGlobalCB
	keep := r.keepUp() && globalObservable
	called := map[int]bool{}
	for _, cb := range r.cbs {
		if cb.Kind == "new" {
			if idx, ok := r.byPtr[cb.New]; ok {
				called[idx] = true
			}
		}
	}
	for i, in := range r.installs {
		if i == 0 {
			continue
		}
		d, known := delayedAt(in.Step)
		if !known {
			continue
		}
		if !keep && globalObservable && r.keptUpSince(in.Step-1) {
			r.probe("install-after-the-callback-queue-recovered")
		}
		if d && r.sc.Suppress {
			r.probe("install-while-suppressed")
			if called[i] {
				r.fail("C09.suppression", "OnNewConfig was called for serial %d, installed at step %d while verification was delayed and global callbacks are to be suppressed", in.Serial, in.Step)
			}
		} else if (keep || (globalObservable && r.keptUpSince(in.Step-1))) && !called[i] && r.sure(in.Step) {

			r.fail("C09.suppression", "OnNewConfig was not called for serial %d (installed at step %d; delayed=%v suppress-option=%v) although callbacks kept up", in.Serial, in.Step, d, r.sc.Suppress)
		}
	}
	for _, op := range r.ops {
		if op.K != "err" || op.Return == 0 || op.Err != nil {
			continue
		}
		d1, k1 := delayedAt(op.Invoke)
		d2, k2 := delayedAt(r.sim.Step())
		if !k1 || !k2 || d1 != d2 {
			continue
		}
		n := 0
		for _, cb := range r.cbs {
			if cb.Kind == "err" && cb.Err != nil && mentions(cb.Err.Error(), op.Str) {
				n++
			}
		}
		state := fmt.Sprintf("delayed=%v suppress-option=%v", d1, r.sc.Suppress)
		r.probe("source-error[" + state + "]")
		if d1 && r.sc.Suppress {
			if n > 0 {
				r.fail("C09.suppression", "a source-reported error reached OnWatchedError while verification was delayed and global callbacks are to be suppressed")
			}
		} else if (keep || (globalObservable && r.keptUpSince(op.Invoke-1))) && n != 1 && (n > 1 || r.sure(op.Return)) {
			r.fail("C09.suppression", "source-reported error %q (%s) reached OnWatchedError %d times, want once (callbacks kept up)", op.Str, state, n)
		}
	}
}

// mentions: s occurs in msg and is not merely a prefix of a longer numbered tag.
func mentions(msg, s string) bool {
	for i := 0; ; {
		j := strings.Index(msg[i:], s)
		if j < 0 {
			return false
		}
		e := i + j + len(s)
		if e == len(msg) || msg[e] < '0' || msg[e] > '9' {
			return true
		}
		i = e
	}
}

var _ = context.Canceled
