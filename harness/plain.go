package main

import (
	"context"
	"fmt"
	"math/rand/v2"
	"reflect"
	"time"

	"simrt"

	"github.com/vimeo/dials"
)

// ---- C09 with a config type that has no Verify method ----
//
// Delayed verification and the suppression of global callbacks are options of
// Params, not of the config type: with a type that does not implement
// VerifiedConfig there is nothing to verify, but the delay is in force all the
// same until EnableVerification has been called, and with the suppress option
// the global callbacks are withheld exactly until then.

type CfgPlain struct {
	A     int
	Stamp uint64
}

type PlainSpec struct {
	Delay    bool `json:"delay"`
	Suppress bool `json:"suppress"`
}

func genPlain(seed uint64, faulty bool) *Scenario {
	g := &gen{r: rand.New(rand.NewPCG(seed, 0x5eed5eed))}
	sc := &Scenario{Prop: "C09", Seed: seed, Faulty: faulty, GlobalCB: "instant", Shutdown: "cancel", MaxSteps: 6000}
	sc.Plain = &PlainSpec{Delay: g.pct(75), Suppress: g.pct(60)}
	rep := ClientSpec{Name: "rep", Kind: "reporter"}
	for i, n := 0, g.in(1, 6); i < n; i++ {
		switch {
		case g.pct(25):
			rep.Ops = append(rep.Ops, Op{K: "err", Str: fmt.Sprintf("plain-error-%d.", i)})
		case g.pct(15):
			rep.Ops = append(rep.Ops, Op{K: "sleep", D: int64(g.in(1, 300)) * 1e6})
		default:
			rep.Ops = append(rep.Ops, Op{K: "breport", N: int(g.id())})
		}
	}
	en := ClientSpec{Name: "enabler", Kind: "enabler"}
	for i, n := 0, g.in(0, 2); i < n; i++ {
		if g.pct(50) {
			en.Ops = append(en.Ops, Op{K: "sleep", D: int64(g.in(1, 300)) * 1e6})
		}
		en.Ops = append(en.Ops, Op{K: "enable"})
	}
	sc.Clients = []ClientSpec{rep, en}
	return sc
}

type plainWatcher struct {
	wa  dials.WatchArgs
	typ *dials.Type
}

func (*plainWatcher) Value(_ context.Context, t *dials.Type) (reflect.Value, error) {
	return reflect.New(t.Type()).Elem(), nil
}

func (w *plainWatcher) Watch(_ context.Context, t *dials.Type, wa dials.WatchArgs) error {
	w.wa, w.typ = wa, t
	return nil
}

type plainEvent struct {
	step  int
	stamp uint64 // new-config callback
	err   string // error callback
}

func runPlain(sc *Scenario, res *Result, keepLog bool) {
	ps := sc.Plain
	s := simrt.New(sc.Seed, sc.Choices)
	defer s.Close()
	s.Record, s.KeepLog, s.Bias = true, keepLog, sc.Bias
	var viol []Violation
	fail := func(oracle, format string, a ...any) {
		if len(viol) < 20 {
			viol = append(viol, Violation{Oracle: oracle, Msg: fmt.Sprintf(format, a...)})
		}
	}
	probes := map[string]int{}
	ctx, cancel := context.WithCancel(context.Background())
	var events []plainEvent
	w := &plainWatcher{}
	d, err := dials.Params[CfgPlain]{
		OnNewConfig: func(_ context.Context, _, n *CfgPlain) {
			events = append(events, plainEvent{step: s.Step(), stamp: n.Stamp})
		},
		OnWatchedError: func(_ context.Context, e error, _, _ *CfgPlain) {
			events = append(events, plainEvent{step: s.Step(), err: e.Error()})
		},
		DelayInitialVerification:                    ps.Delay,
		CallGlobalCallbacksAfterVerificationEnabled: ps.Suppress,
	}.Config(ctx, &CfgPlain{A: 1}, w)
	if err != nil {
		res.Infra = "plain Config failed: " + err.Error()
		cancel()
		return
	}
	type done struct {
		k              string
		stamp          uint64
		str            string
		invoke, ret    int
		enableReturned *CfgPlain
	}
	var ops []done
	finished, clients := 0, 0
	for ci := range sc.Clients {
		c := &sc.Clients[ci]
		clients++
		s.Spawn(c.Name, func() {
			defer func() { finished++ }()
			for i := range c.Ops {
				op := &c.Ops[i]
				switch op.K {
				case "sleep":
					simrt.Sleep(time.Duration(op.D))
				case "breport":
					v := reflect.New(w.typ.Type()).Elem()
					st := uint64(op.N)
					a := op.N
					v.FieldByName("Stamp").Set(reflect.ValueOf(&st))
					v.FieldByName("A").Set(reflect.ValueOf(&a))
					o := done{k: "report", stamp: st, invoke: s.Step()}
					if e := w.wa.BlockingReportNewValue(ctx, v); e != nil {
						fail("C09.enable", "blocking report on a type without Verify failed: %v", e)
					}
					o.ret = s.Step()
					ops = append(ops, o)
				case "err":
					o := done{k: "err", str: op.Str, invoke: s.Step()}
					w.wa.ReportError(ctx, fmt.Errorf("%s", op.Str))
					o.ret = s.Step()
					ops = append(ops, o)
				case "enable":
					o := done{k: "enable", invoke: s.Step()}
					cfg, _, e := d.EnableVerification(ctx)
					o.ret = s.Step()
					if e != nil {
						fail("C09.enable", "EnableVerification on a config type without a Verify method failed: %v", e)
					} else if cfg == nil {
						fail("C09.atomic-switch", "EnableVerification succeeded but returned a nil config")
					}
					o.enableReturned = cfg
					ops = append(ops, o)
					probes["enable-without-verify-method"]++
				}
			}
		})
	}
	reason := s.Run(sc.MaxSteps, func() bool { return finished >= clients }, time.Time{})
	s.Run(sc.MaxSteps, nil, time.Now().Add(settleHorizon))
	for _, c := range s.Crashes {
		fail("crash", "task %s panicked at step %d: %s\n%s", c.Task, c.Step, c.Value, c.Stack)
	}
	s.Crashes = nil
	if reason != simrt.Done {
		fail("stuck", "clients did not finish (%s)", reason)
	}
	// the delay is in force (if the option is set) until an enable call; the
	// switch happens somewhere inside the first call's window
	firstInvoke, firstReturn := 0, 0
	for _, o := range ops {
		if o.k == "enable" && (firstInvoke == 0 || o.invoke < firstInvoke) {
			firstInvoke, firstReturn = o.invoke, o.ret
		}
	}
	suppressedAt := func(step int) (bool, bool) { // suppressed?, known?
		if !ps.Delay || !ps.Suppress {
			return false, true
		}
		switch {
		case firstInvoke == 0 || step < firstInvoke:
			return true, true
		case step > firstReturn:
			return false, true
		}
		return false, false
	}
	for _, o := range ops {
		switch o.k {
		case "report":
			n := 0
			for _, e := range events {
				if e.err == "" && e.stamp == o.stamp {
					n++
				}
			}
			sup, known := suppressedAt(o.invoke)
			sup2, known2 := suppressedAt(o.ret)
			if !known || !known2 || sup != sup2 {
				continue
			}
			probes[fmt.Sprintf("plain-install[suppressed=%v]", sup)]++
			if sup && n > 0 {
				fail("C09.suppression", "OnNewConfig was called for an update installed while the delay was in force and global callbacks are to be suppressed (config type without a Verify method)")
			}
			if !sup && n != 1 {
				fail("C09.suppression", "OnNewConfig was called %d times for an update installed while nothing is suppressed (delay=%v suppress-option=%v, config type without a Verify method)", n, ps.Delay, ps.Suppress)
			}
		case "err":
			n := 0
			for _, e := range events {
				if e.err != "" && mentions(e.err, o.str) {
					n++
				}
			}
			sup, known := suppressedAt(o.invoke)
			sup2, known2 := suppressedAt(s.Step())
			if !known || !known2 || sup != sup2 {
				continue
			}
			if sup && n > 0 {
				fail("C09.suppression", "a source-reported error reached OnWatchedError while the delay was in force and global callbacks are to be suppressed (config type without a Verify method)")
			}
			if !sup && n != 1 {
				fail("C09.suppression", "a source-reported error reached OnWatchedError %d times while nothing is suppressed (delay=%v suppress-option=%v, config type without a Verify method)", n, ps.Delay, ps.Suppress)
			}
		}
	}
	cancel()
	s.Run(20000, nil, time.Now().Add(settleHorizon))
	for _, t := range s.Tasks() {
		if t.Lib && t.State != simrt.Exited {
			fail("C08.leak", "library goroutine %s still %s at %q after cancel", t.Name, t.State, t.Label)
		}
	}
	res.Viol = viol
	res.Reason = "plain"
	res.Hash, res.Steps, res.NChoices, res.SimNS, res.States = s.Hash(), s.Step(), s.Choices(), int64(s.Elapsed()), s.States
	for k, v := range probes {
		res.Probes[k] += v
	}
	res.Made = make([]int, len(s.Made))
	for i, c := range s.Made {
		res.Made[i] = c.V
	}
	res.Log = s.Log
}
