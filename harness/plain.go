package main

import (
	"context"
	"fmt"
	"math/rand/v2"
	"reflect"
	"sync"
	"time"

	"simrt"

	"github.com/vimeo/dials"
)

// ---- C09 with a config type that has no Verify method ----
//
// Delayed verification and the suppression of global callbacks are options of
// Params, not of the config type: with a type that does not implement
// VerifiedConfig there is nothing to verify, but the delay is in force all the
// same until EnableVerification has been called, and with the suppress option
// the global callbacks are withheld exactly until then.

type CfgPlain struct {
	A     int
	Stamp uint64
}

type PlainSpec struct {
	Delay    bool `json:"delay"`
	Suppress bool `json:"suppress"`
	Values   bool `json:"values,omitempty"` // the C05 variant: a source that hands out values of the plain config type
}

func genPlain(seed uint64, faulty bool) *Scenario {
	g := &gen{r: rand.New(rand.NewPCG(seed, 0x5eed5eed))}
	sc := &Scenario{Prop: "C09", Seed: seed, Faulty: faulty, GlobalCB: "instant", Shutdown: "cancel", MaxSteps: 6000}
	sc.Plain = &PlainSpec{Delay: g.pct(75), Suppress: g.pct(60)}
	rep := ClientSpec{Name: "rep", Kind: "reporter"}
	for i, n := 0, g.in(1, 6); i < n; i++ {
		switch {
		case g.pct(25):
			rep.Ops = append(rep.Ops, Op{K: "err", Str: fmt.Sprintf("plain-error-%d.", i)})
		case g.pct(15):
			rep.Ops = append(rep.Ops, Op{K: "sleep", D: int64(g.in(1, 300)) * 1e6})
		default:
			rep.Ops = append(rep.Ops, Op{K: "breport", N: int(g.id())})
		}
	}
	en := ClientSpec{Name: "enabler", Kind: "enabler"}
	for i, n := 0, g.in(0, 2); i < n; i++ {
		if g.pct(50) {
			en.Ops = append(en.Ops, Op{K: "sleep", D: int64(g.in(1, 300)) * 1e6})
		}
		en.Ops = append(en.Ops, Op{K: "enable"})
	}
	sc.Clients = []ClientSpec{rep, en}
	return sc
}

type plainWatcher struct {
	wa  dials.WatchArgs
	typ *dials.Type
}

func (*plainWatcher) Value(_ context.Context, t *dials.Type) (reflect.Value, error) {
	return reflect.New(t.Type()).Elem(), nil
}

func (w *plainWatcher) Watch(_ context.Context, t *dials.Type, wa dials.WatchArgs) error {
	w.wa, w.typ = wa, t
	return nil
}

type plainEvent struct {
	step  int
	stamp uint64 // new-config callback
	err   string // error callback
}

func runPlain(sc *Scenario, res *Result, keepLog bool) {
	ps := sc.Plain
	s := simrt.New(sc.Seed, sc.Choices)
	defer s.Close()
	s.Record, s.KeepLog, s.Bias = true, keepLog, sc.Bias
	var viol []Violation
	fail := func(oracle, format string, a ...any) {
		if len(viol) < 20 {
			viol = append(viol, Violation{Oracle: oracle, Msg: fmt.Sprintf(format, a...)})
		}
	}
	probes := map[string]int{}
	ctx, cancel := context.WithCancel(context.Background())
	var events []plainEvent
	w := &plainWatcher{}
	d, err := dials.Params[CfgPlain]{
		OnNewConfig: func(_ context.Context, _, n *CfgPlain) {
			events = append(events, plainEvent{step: s.Step(), stamp: n.Stamp})
		},
		OnWatchedError: func(_ context.Context, e error, _, _ *CfgPlain) {
			events = append(events, plainEvent{step: s.Step(), err: e.Error()})
		},
		DelayInitialVerification:                    ps.Delay,
		CallGlobalCallbacksAfterVerificationEnabled: ps.Suppress,
	}.Config(ctx, &CfgPlain{A: 1}, w)
	if err != nil {
		res.Infra = "plain Config failed: " + err.Error()
		cancel()
		return
	}
	type done struct {
		k              string
		stamp          uint64
		str            string
		invoke, ret    int
		enableReturned *CfgPlain
	}
	var ops []done
	finished, clients := 0, 0
	for ci := range sc.Clients {
		c := &sc.Clients[ci]
		clients++
		s.Spawn(c.Name, func() {
			defer func() { finished++ }()
			for i := range c.Ops {
				op := &c.Ops[i]
				switch op.K {
				case "sleep":
					simrt.Sleep(time.Duration(op.D))
				case "breport":
					v := reflect.New(w.typ.Type()).Elem()
					st := uint64(op.N)
					a := op.N
					v.FieldByName("Stamp").Set(reflect.ValueOf(&st))
					v.FieldByName("A").Set(reflect.ValueOf(&a))
					o := done{k: "report", stamp: st, invoke: s.Step()}
					if e := w.wa.BlockingReportNewValue(ctx, v); e != nil {
						fail("C09.enable", "blocking report on a type without Verify failed: %v", e)
					}
					o.ret = s.Step()
					ops = append(ops, o)
				case "err":
					o := done{k: "err", str: op.Str, invoke: s.Step()}
					w.wa.ReportError(ctx, fmt.Errorf("%s", op.Str))
					o.ret = s.Step()
					ops = append(ops, o)
				case "enable":
					o := done{k: "enable", invoke: s.Step()}
					cfg, _, e := d.EnableVerification(ctx)
					o.ret = s.Step()
					if e != nil {
						fail("C09.enable", "EnableVerification on a config type without a Verify method failed: %v", e)
					} else if cfg == nil {
						fail("C09.atomic-switch", "EnableVerification succeeded but returned a nil config")
					}
					o.enableReturned = cfg
					ops = append(ops, o)
					probes["enable-without-verify-method"]++
				}
			}
		})
	}
	reason := s.Run(sc.MaxSteps, func() bool { return finished >= clients }, time.Time{})
	s.Run(sc.MaxSteps, nil, time.Now().Add(settleHorizon))
	for _, c := range s.Crashes {
		fail("crash", "task %s panicked at step %d: %s\n%s", c.Task, c.Step, c.Value, c.Stack)
	}
	s.Crashes = nil
	if reason != simrt.Done {
		fail("stuck", "clients did not finish (%s)", reason)
	}
	// the delay is in force (if the option is set) until an enable call; the
	// switch happens somewhere inside the first call's window
	firstInvoke, firstReturn := 0, 0
	for _, o := range ops {
		if o.k == "enable" && (firstInvoke == 0 || o.invoke < firstInvoke) {
			firstInvoke, firstReturn = o.invoke, o.ret
		}
	}
	suppressedAt := func(step int) (bool, bool) { // suppressed?, known?
		if !ps.Delay || !ps.Suppress {
			return false, true
		}
		switch {
		case firstInvoke == 0 || step < firstInvoke:
			return true, true
		case step > firstReturn:
			return false, true
		}
		return false, false
	}
	for _, o := range ops {
		switch o.k {
		case "report":
			n := 0
			for _, e := range events {
				if e.err == "" && e.stamp == o.stamp {
					n++
				}
			}
			sup, known := suppressedAt(o.invoke)
			sup2, known2 := suppressedAt(o.ret)
			if !known || !known2 || sup != sup2 {
				continue
			}
			probes[fmt.Sprintf("plain-install[suppressed=%v]", sup)]++
			if sup && n > 0 {
				fail("C09.suppression", "OnNewConfig was called for an update installed while the delay was in force and global callbacks are to be suppressed (config type without a Verify method)")
			}
			if !sup && n != 1 {
				fail("C09.suppression", "OnNewConfig was called %d times for an update installed while nothing is suppressed (delay=%v suppress-option=%v, config type without a Verify method)", n, ps.Delay, ps.Suppress)
			}
		case "err":
			n := 0
			for _, e := range events {
				if e.err != "" && mentions(e.err, o.str) {
					n++
				}
			}
			sup, known := suppressedAt(o.invoke)
			sup2, known2 := suppressedAt(s.Step())
			if !known || !known2 || sup != sup2 {
				continue
			}
			if sup && n > 0 {
				fail("C09.suppression", "a source-reported error reached OnWatchedError while the delay was in force and global callbacks are to be suppressed (config type without a Verify method)")
			}
			if !sup && n != 1 {
				fail("C09.suppression", "a source-reported error reached OnWatchedError %d times while nothing is suppressed (delay=%v suppress-option=%v, config type without a Verify method)", n, ps.Delay, ps.Suppress)
			}
		}
	}
	cancel()
	s.Run(20000, nil, time.Now().Add(settleHorizon))
	for _, t := range s.Tasks() {
		if t.Lib && t.State != simrt.Exited {
			fail("C08.leak", "library goroutine %s still %s at %q after cancel", t.Name, t.State, t.Label)
		}
	}
	res.Viol = viol
	res.Reason = "plain"
	res.Hash, res.Steps, res.NChoices, res.SimNS, res.States = s.Hash(), s.Step(), s.Choices(), int64(s.Elapsed()), s.States
	for k, v := range probes {
		res.Probes[k] += v
	}
	res.Made = make([]int, len(s.Made))
	for i, c := range s.Made {
		res.Made[i] = c.V
	}
	res.Log = s.Log
}

// ---- C05 with a source that hands out values of the plain config type ----
//
// "Sources can return whatever Value they want": a source may return a value
// of the config type itself (every scalar leaf counts as set, nil-able leaves
// only when non-nil) instead of the pointerified type. The re-stacked view
// must equal a fresh stack of the same values all the same.

type PlainLim struct {
	Soft int
	Hard int
}

type CfgPlain2 struct {
	A    int
	Name string
	Lim  *PlainLim
	Tags []string
}

type plain2Val struct {
	A, Soft, Hard *int
	Name          *string
	Tags          []string
	HasLim        bool
}

func (v *plain2Val) plain() reflect.Value {
	c := &CfgPlain2{}
	if v.A != nil {
		c.A = *v.A
	}
	if v.Name != nil {
		c.Name = *v.Name
	}
	if v.HasLim {
		c.Lim = &PlainLim{}
		if v.Soft != nil {
			c.Lim.Soft = *v.Soft
		}
		if v.Hard != nil {
			c.Lim.Hard = *v.Hard
		}
	}
	if v.Tags != nil {
		c.Tags = append([]string{}, v.Tags...)
	}
	return reflect.ValueOf(c)
}

func (v *plain2Val) pointerified(t reflect.Type) reflect.Value {
	out := reflect.New(t).Elem()
	if v.A != nil {
		a := *v.A
		out.FieldByName("A").Set(reflect.ValueOf(&a))
	}
	if v.Name != nil {
		n := *v.Name
		out.FieldByName("Name").Set(reflect.ValueOf(&n))
	}
	if v.HasLim {
		lf := out.FieldByName("Lim")
		l := reflect.New(lf.Type().Elem())
		if v.Soft != nil {
			x := *v.Soft
			l.Elem().FieldByName("Soft").Set(reflect.ValueOf(&x))
		}
		if v.Hard != nil {
			x := *v.Hard
			l.Elem().FieldByName("Hard").Set(reflect.ValueOf(&x))
		}
		lf.Set(l)
	}
	if v.Tags != nil {
		out.FieldByName("Tags").Set(reflect.ValueOf(append([]string{}, v.Tags...)))
	}
	return out
}

// apply: the reference model of overlaying this value (plain or pointerified).
func (v *plain2Val) apply(c *CfgPlain2, plain bool) {
	if v.A != nil {
		c.A = *v.A
	} else if plain {
		c.A = 0
	}
	if v.Name != nil {
		c.Name = *v.Name
	} else if plain {
		c.Name = ""
	}
	if v.HasLim {
		if c.Lim == nil {
			c.Lim = &PlainLim{}
		}
		if v.Soft != nil {
			c.Lim.Soft = *v.Soft
		} else if plain {
			c.Lim.Soft = 0
		}
		if v.Hard != nil {
			c.Lim.Hard = *v.Hard
		} else if plain {
			c.Lim.Hard = 0
		}
	}
	if v.Tags != nil {
		c.Tags = append([]string{}, v.Tags...)
	}
}

type plain2Source struct {
	plain bool
	cur   *plain2Val
	wa    dials.WatchArgs
	typ   *dials.Type
}

func (s *plain2Source) value(t *dials.Type) reflect.Value {
	if s.cur == nil {
		return reflect.New(t.Type()).Elem()
	}
	if s.plain {
		return s.cur.plain()
	}
	return s.cur.pointerified(t.Type())
}

func (s *plain2Source) Value(_ context.Context, t *dials.Type) (reflect.Value, error) {
	return s.value(t), nil
}

func (s *plain2Source) Watch(_ context.Context, t *dials.Type, wa dials.WatchArgs) error {
	s.wa, s.typ = wa, t
	return nil
}

func genPlain2(seed uint64, faulty bool) *Scenario {
	g := &gen{r: rand.New(rand.NewPCG(seed, 0x5eed5eed))}
	sc := &Scenario{Prop: "C05", Seed: seed, Faulty: faulty, GlobalCB: "instant", Shutdown: "cancel", MaxSteps: 6000}
	sc.Plain = &PlainSpec{Values: true}
	for src := 0; src < 2; src++ {
		c := ClientSpec{Name: fmt.Sprintf("src%d", src), Kind: "reporter", Src: src}
		for i, n := 0, g.in(1, 5); i < n; i++ {
			c.Ops = append(c.Ops, Op{K: "breport", N: int(g.id()), Str: fmt.Sprintf("%03b", g.r.IntN(32))})
		}
		sc.Clients = append(sc.Clients, c)
	}
	return sc
}

// plain2From derives a value from an op: N is the number base, the bits of
// Str say which leaves are set.
func plain2From(op *Op) *plain2Val {
	bits := 0
	fmt.Sscanf(op.Str, "%b", &bits)
	n := op.N
	v := &plain2Val{}
	if bits&1 != 0 {
		v.A = ip(n*10 + 1)
	}
	if bits&2 != 0 {
		v.HasLim = true
		v.Soft = ip(n*10 + 2)
	}
	if bits&4 != 0 {
		v.HasLim = true
		v.Hard = ip(n*10 + 3)
	}
	if bits&8 != 0 {
		v.Name = sp(fmt.Sprintf("n%d", n))
	}
	if bits&16 != 0 {
		v.Tags = []string{fmt.Sprintf("t%d", n)}
	}
	return v
}

func runPlain2(sc *Scenario, res *Result, keepLog bool) {
	s := simrt.New(sc.Seed, sc.Choices)
	defer s.Close()
	s.Record, s.KeepLog, s.Bias = true, keepLog, sc.Bias
	var viol []Violation
	fail := func(oracle, format string, a ...any) {
		if len(viol) < 20 {
			viol = append(viol, Violation{Oracle: oracle, Msg: fmt.Sprintf(format, a...)})
		}
	}
	probes := map[string]int{}
	ctx, cancel := context.WithCancel(context.Background())
	defaults := func() *CfgPlain2 { return &CfgPlain2{A: 1, Name: "default", Tags: []string{"d"}} }
	// the lower source hands out plain values, the upper one pointerified ones
	srcs := []*plain2Source{{plain: true}, {plain: false}}
	d, err := dials.Config(ctx, defaults(), srcs[0], srcs[1])
	if err != nil {
		res.Infra = "plain2 Config failed: " + err.Error()
		cancel()
		return
	}
	expect := func() *CfgPlain2 {
		c := defaults()
		for _, src := range srcs {
			if src.cur != nil {
				src.cur.apply(c, src.plain)
			}
		}
		return c
	}
	var snaps []struct {
		cfg *CfgPlain2
		fp  string
	}
	finished, clients := 0, 0
	var turn sync.Mutex
	for ci := range sc.Clients {
		c := &sc.Clients[ci]
		clients++
		s.Spawn(c.Name, func() {
			defer func() { finished++ }()
			src := srcs[c.Src]
			for i := range c.Ops {
				op := &c.Ops[i]
				// one report at a time: the expectation after each is exact
				simrt.MuLock(&turn, "turn")
				src.cur = plain2From(op)
				if e := src.wa.BlockingReportNewValue(ctx, src.value(src.typ)); e != nil {
					fail("C05.fresh-stack", "blocking report of a %s value failed: %v", map[bool]string{true: "plain-typed", false: "pointerified"}[src.plain], e)
				}
				got := d.View()
				probes["plain-typed-source-restack"]++
				if a, b := render(got), render(expect()); a != b {
					fail("C05.model", "after a report of source %d the view differs from the stack of the defaults and the two sources' last values (the lower source hands out values of the plain config type)\n view:  %s\n model: %s", c.Src, a, b)
				}
				fresh, ferr := dials.Config(context.Background(), defaults(), &plain2Source{plain: true, cur: srcs[0].cur}, &plain2Source{plain: false, cur: srcs[1].cur})
				if ferr != nil {
					fail("C05.fresh-stack", "a fresh Config over the same values failed: %v", ferr)
				} else if a, b := render(got), render(fresh.View()); a != b {
					fail("C05.fresh-stack", "after a report of source %d the view differs from a fresh Config over the same values\n view:  %s\n fresh: %s", c.Src, a, b)
				}
				snaps = append(snaps, struct {
					cfg *CfgPlain2
					fp  string
				}{got, render(got)})
				simrt.MuUnlock(&turn)
			}
		})
	}
	reason := s.Run(sc.MaxSteps, func() bool { return finished >= clients }, time.Time{})
	s.Run(sc.MaxSteps, nil, time.Now().Add(settleHorizon))
	for _, c := range s.Crashes {
		fail("crash", "task %s panicked at step %d: %s\n%s", c.Task, c.Step, c.Value, c.Stack)
	}
	s.Crashes = nil
	if reason != simrt.Done {
		fail("stuck", "clients did not finish (%s)", reason)
	}
	for _, sn := range snaps {
		if now := render(sn.cfg); now != sn.fp {
			fail("C04.view-mutated", "a version changed after it became visible\n then: %s\n now:  %s", sn.fp, now)
			break
		}
	}
	cancel()
	s.Run(20000, nil, time.Now().Add(settleHorizon))
	res.Viol = viol
	res.Reason = "plain-values"
	res.Hash, res.Steps, res.NChoices, res.SimNS, res.States = s.Hash(), s.Step(), s.Choices(), int64(s.Elapsed()), s.States
	for k, v := range probes {
		res.Probes[k] += v
	}
	res.Made = make([]int, len(s.Made))
	for i, c := range s.Made {
		res.Made[i] = c.V
	}
	res.Log = s.Log
}
