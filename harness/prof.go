package main

import (
	"os"
	"runtime/pprof"
)

func init() {
	if p := os.Getenv("HARNESS_PROF"); p != "" {
		f, _ := os.Create(p)
		pprof.StartCPUProfile(f)
		profStop = func() { pprof.StopCPUProfile(); f.Close() }
	}
}

var profStop = func() {}
