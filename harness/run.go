package main

import (
	"context"
	"errors"
	"fmt"
	"reflect"
	"sort"
	"strings"
	"time"

	"simrt"

	"github.com/vimeo/dials"
	"github.com/vimeo/dials/sourcewrap"
)

var curRun *Run

var (
	errSourceValue = errors.New("harness: injected source Value failure")
	errSourceWatch = errors.New("harness: injected source Watch failure")
)

// Install is one entry of the install log: a version at the first step
// boundary at which it was visible.
type Install struct {
	Step   int
	Serial uint64
	Ptr    *CfgCore
	Stamps [4]uint64
	FP     string
	Valid  bool
}

type VerifyRec struct {
	Step   int
	Ptr    *CfgCore
	Stamps [4]uint64
	Failed bool
	Task   string
	FP     string // rendering at the time of the call
}

type CBRec struct {
	Kind        string // new | err | reg
	Handle      int    // -1: global
	Enter, Exit int
	Old, New    *CfgCore
	NewStamps   [4]uint64
	HasNew      bool
	Err         error
}

type OpRec struct {
	Client         string
	Idx            int
	K              string
	Src            int
	PartID         uint64
	Invoke, Return int // Return == 0: still outstanding
	Err            error
	Cfg            *CfgCore
	Serial         uint64
	Ok             bool
	CtxKind        string
	CtxEndedAt     int // step at which the op's context ended (0: not ended)
	ctx            context.Context
	Handle         int
	Str            string
	Deadline       time.Time // of the op's own context (zero: none)
	ReturnAt       time.Time // simulated clock when it returned
}

// stall: an interval of simulated time during which the monitor was busy in
// user code (a Verify that takes long) and resumed only once everybody else
// had gone idle.
type stall struct{ from, to time.Time }

type Violation struct {
	Oracle string `json:"oracle"`
	Msg    string `json:"msg"`
}

type handle struct {
	id         int
	client     string
	serial     uint64
	serialCfg  *CfgCore
	zero       bool
	serialStep int // step at which the serial was read
	regInvoke  int
	regReturn  int
	kAfter     uint64
	registered bool
	unreg      dials.UnregisterCBFunc
	unregOK    int // step at which unregister returned true
	behaviour  string
	stalled    bool
	stall      time.Duration
}

type srcState struct {
	idx       int
	spec      SourceSpec
	wa        dials.WatchArgs
	typ       *dials.Type
	blank     *sourcewrap.Blank
	src       dials.Source
	handed    []handed
	doneAt    int
	doneTried bool                 // Done was called at least once (delivered or not)
	subs      map[string]*subState // reporter client -> what it has submitted
	lastVal   map[string]lastValue
	// a watching inner source handed to the Blank: what its Watch was given
	innerCtx context.Context
	innerWA  dials.WatchArgs
}

type lastValue struct {
	v         reflect.Value
	id        uint64
	processed bool // the report that carried it was a blocking one and has returned: the monitor is done with it
	shared    bool
}

// reuseIsSafe: a source may only write into a value it reported earlier when
// nothing can be reading it: the monitor has finished with the report that
// carried it, and no other watching source can trigger a re-stack (which would
// read the slot) while it is being rewritten.
func (r *Run) reuseIsSafe(c *ClientSpec, lv lastValue) bool {
	if !lv.processed || lv.shared {
		return false
	}
	for _, o := range r.sc.Clients {
		if (o.Kind == "reporter" || o.Kind == "blank") && o.Name != c.Name {
			return false
		}
	}
	return true
}

// subState: the last part a client surely delivered to the monitor, and the
// parts after it whose delivery is unknown (blocking report abandoned on a
// context error).
type subState struct {
	sure   uint64
	has    bool
	maybes []uint64
}

func (st *srcState) submitted(client string, id uint64, sure bool) {
	ss := st.subs[client]
	if ss == nil {
		ss = &subState{}
		st.subs[client] = ss
	}
	if sure {
		ss.sure, ss.has, ss.maybes = id, true, nil
	} else {
		ss.maybes = append(ss.maybes, id)
	}
}

// handed is a value given to dials, with the fingerprint it had at that moment.
type handed struct {
	v    reflect.Value
	fp   string
	step int
	what string
}

type Run struct {
	sc       *Scenario
	sim      *simrt.Sim
	ctx      context.Context
	cancel   context.CancelFunc
	d        *dials.Dials[CfgCore]
	cfgErr   error
	defaults *CfgCore
	defFP    string
	pristine *CfgCore // harness-private copy of the defaults
	srcs     []*srcState
	parts    map[uint64]*Part
	owner    map[uint64]int

	installs          []Install
	byPtr             map[*CfgCore]int
	verifies          []VerifyRec
	cbs               []*CBRec
	ops               []*OpRec
	handles           []*handle
	named             map[string]context.CancelFunc
	started           map[string]bool
	never             chan struct{}
	clients           int
	finished          int
	maxQueue          int
	ownCancels        []context.CancelFunc
	probing           bool // the liveness probe is under way
	stalls            []stall
	verifyCalls       int
	enabledOK         bool // an EnableVerification call has returned success
	postPhase         bool // the run is over: only the recorded history is examined
	qcap              int
	queueOffset       int
	queueSeries       []queuePoint
	cbSeen            int
	addrDone          int
	regions           map[int][]region
	lateOps           []*OpRec
	defaultsScribbled bool
	file              *fileState
	configDone        bool
	reads             []simrt.ReadRecord
	post              []func(*Result) // work to do on the result after the bubble has been left

	viol      []Violation
	probes    map[string]int
	freshFP   map[[4]uint64]*freshRes
	phase     string
	enabledAt int
}

type freshRes struct {
	fp    string
	cfg   *CfgCore
	err   error
	valid bool
}

func (r *Run) probe(name string) { r.probes[name]++ }

func (r *Run) fail(oracle, format string, a ...any) {
	if len(r.viol) < 20 {
		r.viol = append(r.viol, Violation{Oracle: oracle, Msg: fmt.Sprintf(format, a...)})
	}
}

func (r *Run) onVerify(c *CfgCore, err error) {
	r.verifies = append(r.verifies, VerifyRec{Step: r.sim.Step(), Ptr: c, Stamps: c.stamps(), Failed: err != nil, FP: render(c)})
}

// ---- sources ----

type simStatic struct {
	st *srcState
	r  *Run
}

func (s *simStatic) Value(ctx context.Context, t *dials.Type) (reflect.Value, error) {
	if s.st.spec.ValueErr {
		return reflect.Value{}, errSourceValue
	}
	v := buildValue(t.Type(), s.st.spec.Init, s.st.idx)
	s.r.hand(s.st, v, "initial value")
	return v, nil
}

type simWatcher struct{ simStatic }

func (s *simWatcher) Watch(ctx context.Context, t *dials.Type, wa dials.WatchArgs) error {
	if s.st.spec.WatchErr {
		return errSourceWatch
	}
	s.st.wa = wa
	s.st.typ = t
	return nil
}

// innerStatic is what a blank client hands to Blank.SetSource.
type innerStatic struct {
	r    *Run
	st   *srcState
	part *Part
	fail bool
}

func (s *innerStatic) Value(ctx context.Context, t *dials.Type) (reflect.Value, error) {
	simrt.Yield("inner.Value") // a real source reads something here: others run meanwhile
	if s.fail {
		return reflect.Value{}, errSourceValue
	}
	v := buildValue(t.Type(), s.part, s.st.idx)
	s.r.hand(s.st, v, "SetSource value")
	return v, nil
}

// innerWatcher is an inner source that also watches: the Blank hands its slot
// over to it. It reports nothing by itself; it remembers the context it was
// started under, which is its lifetime.
type innerWatcher struct{ innerStatic }

func (s *innerWatcher) Watch(ctx context.Context, _ *dials.Type, wa dials.WatchArgs) error {
	s.st.innerCtx, s.st.innerWA = ctx, wa
	s.r.probe("blank-handed-its-slot-to-a-watcher")
	return nil
}

func (r *Run) hand(st *srcState, v reflect.Value, what string) {
	st.handed = append(st.handed, handed{v: v, fp: render(v.Interface()), step: r.sim.Step(), what: what})
}

// ---- fresh-stack oracle ----

type fixedSource struct{ v reflect.Value }

func (f fixedSource) Value(context.Context, *dials.Type) (reflect.Value, error) { return f.v, nil }

type partSource struct {
	p     *Part
	owner int
}

func (s partSource) Value(_ context.Context, t *dials.Type) (reflect.Value, error) {
	if s.p == nil {
		return reflect.New(t.Type()), nil
	}
	return buildValue(t.Type(), s.p, s.owner), nil
}

// fresh stacks, from scratch, the harness's pristine defaults and static
// sources returning the parts identified by stamps.
func (r *Run) fresh(stamps [4]uint64) *freshRes {
	if f, ok := r.freshFP[stamps]; ok {
		return f
	}
	res := &freshRes{}
	r.freshFP[stamps] = res
	var srcs []dials.Source
	for i := range r.sc.Sources {
		srcs = append(srcs, partSource{p: r.parts[stamps[i]], owner: i})
	}
	func() {
		defer func() {
			if x := recover(); x != nil {
				res.err = fmt.Errorf("fresh Config panicked: %v", x)
			}
		}()
		def := defaultsFrom(&r.sc.Defaults)
		d, err := dials.Params[CfgCore]{SkipInitialVerification: true}.Config(context.Background(), def, srcs...)
		if err != nil {
			res.err = err
			return
		}
		res.cfg = d.View()
		res.fp = render(res.cfg)
		res.valid = valid(res.cfg)
	}()
	r.modelCheck(stamps, res)
	return res
}

// modelCheck: the library's fresh stack of these values against the harness's
// own reference model of stacking (model.go).
func (r *Run) modelCheck(stamps [4]uint64, res *freshRes) {
	if r.postPhase {
		return
	}
	var parts []*Part
	for i := range r.sc.Sources {
		parts = append(parts, r.parts[stamps[i]])
	}
	mc, merr := modelStack(&r.sc.Defaults, parts)
	r.probe("fresh-stack-checked-against-the-reference-model")
	switch {
	case merr != nil && res.err == nil:
		r.fail("C05.model", "a fresh Config over the values %v succeeded although one of them cannot be assigned to its field (the stack must fail): %s", stamps, res.fp)
	case merr == nil && res.err != nil:
		r.fail("C05.model", "a fresh Config over the values %v failed (%v), the reference model stacks them to %s", stamps, res.err, render(mc))
	case merr == nil:
		if m := render(mc); m != res.fp {
			r.fail("C05.model", "a fresh Config over the values %v differs from the reference model of stacking\n library: %s\n model:   %s", stamps, res.fp, m)
		}
	}
}

// ---- observation at step boundaries ----

func serialOf(s dials.CfgSerial[CfgCore]) (uint64, *CfgCore) {
	v := reflect.ValueOf(s)
	return v.FieldByName("s").Uint(), (*CfgCore)(v.FieldByName("cfg").UnsafePointer())
}

func (r *Run) observe() {
	if r.d == nil {
		return
	}
	cfg, ser := r.d.ViewVersion()
	n, scfg := serialOf(ser)
	if scfg != cfg {
		r.fail("C05.pair", "ViewVersion returned config %p with a serial for config %p", cfg, scfg)
	}
	if len(r.installs) == 0 || r.installs[len(r.installs)-1].Ptr != cfg {
		if _, dup := r.byPtr[cfg]; dup {
			r.fail("C05.serial", "version pointer %p installed twice (serial %d)", cfg, n)
		}
		in := Install{Step: r.sim.Step(), Serial: n, Ptr: cfg, Stamps: cfg.stamps(), FP: render(cfg), Valid: valid(cfg)}
		r.byPtr[cfg] = len(r.installs)
		r.installs = append(r.installs, in)
	} else if last := r.installs[len(r.installs)-1]; last.Serial != n {
		r.fail("C05.serial", "serial changed from %d to %d without a new config", last.Serial, n)
		// two versions that are one and the same struct share all their memory
		r.fail("C02.aliasing", "versions serial=%d and serial=%d are the very same struct %p: a holder of the older one who writes to it changes the current one", last.Serial, n, cfg)
	}
	// abstract state for the distinct-states measure
	h := fmt.Sprintf("%d|%v|%d|%d|%s", n, cfg.stamps(), len(r.cbs), len(r.verifies), r.sim.ParkedLabels())
	r.sim.NoteState(hashStr(h))
	r.noteQueue()
	if r.sc.Prop == "C02" {
		r.addrOracle()
	}
}

func hashStr(s string) uint64 {
	var h uint64 = 14695981039346656037
	for i := 0; i < len(s); i++ {
		h ^= uint64(s[i])
		h *= 1099511628211
	}
	return h
}

// currentAt returns the index of the install that was current at the end of step.
func (r *Run) currentAt(step int) int {
	i := sort.Search(len(r.installs), func(i int) bool { return r.installs[i].Step > step })
	return i - 1
}

// ---- contexts ----

func (r *Run) opCtx(op *Op, rec *OpRec) (context.Context, context.CancelFunc) {
	base := r.ctx
	if r.phase == "late" {
		base = context.Background()
	}
	var ctx context.Context
	var cancel context.CancelFunc
	switch {
	case op.Ctx == "deadline":
		ctx, cancel = context.WithTimeout(base, time.Duration(op.D))
		rec.Deadline = time.Now().Add(time.Duration(op.D))
	case op.Ctx == "own":
		// a context of the caller's own that outlives the Config context
		var c context.CancelFunc
		ctx, c = context.WithCancel(context.Background())
		r.ownCancels = append(r.ownCancels, c)
		cancel = func() {}
	case op.Ctx == "expired":
		ctx, cancel = context.WithCancel(base)
		cancel()
	case strings.HasPrefix(op.Ctx, "named:"):
		ctx, cancel = context.WithCancel(base)
		r.named[strings.TrimPrefix(op.Ctx, "named:")] = cancel
	default:
		ctx, cancel = context.WithCancel(base)
	}
	rec.ctx = ctx
	rec.CtxKind = op.Ctx
	return ctx, cancel
}

func (r *Run) begin(c *ClientSpec, idx int, op *Op) *OpRec {
	rec := &OpRec{Client: c.Name, Idx: idx, K: op.K, Src: c.Src, Invoke: r.sim.Step(), Handle: -1, Str: op.Str}
	if op.Part != nil {
		rec.PartID = op.Part.ID
	}
	r.ops = append(r.ops, rec)
	r.started[fmt.Sprintf("%s.%d", c.Name, idx)] = true
	return rec
}

func (r *Run) end(rec *OpRec, err error) {
	rec.Err = err
	rec.Return = r.sim.Step()
	rec.ReturnAt = time.Now()
	if rec.ctx != nil && rec.ctx.Err() != nil && rec.CtxEndedAt == 0 {
		rec.CtxEndedAt = rec.Return
	}
}

// ---- clients ----

func (r *Run) spawnClients() {
	for i := range r.sc.Clients {
		c := &r.sc.Clients[i]
		r.spawn(c)
	}
}

func (r *Run) spawn(c *ClientSpec) {
	counted := c.Kind != "canceller"
	if counted {
		r.clients++
	}
	r.sim.Spawn(c.Name, func() {
		if c.Kind != "writer" && !r.configDone {
			simrt.YieldWhen("await-config", func() bool { return r.configDone })
		}
		if r.d == nil && c.Kind != "writer" {
			if counted {
				r.finished++
			}
			return
		}
		switch c.Kind {
		case "reporter":
			r.reporter(c)
		case "reader":
			r.reader(c)
		case "registrar":
			r.registrar(c)
		case "enabler":
			r.enabler(c)
		case "canceller":
			r.canceller(c)
		case "stopper":
			r.stopper(c)
		case "blank", "blankdone":
			r.blankClient(c)
		case "mutator":
			r.mutator(c)
		case "writer":
			r.writer(c)
		default:
			panic("harness: unknown client kind " + c.Kind)
		}
		if counted {
			r.finished++
		}
	})
}

func (r *Run) reporter(c *ClientSpec) {
	st := r.srcs[c.Src]
	for i := range c.Ops {
		op := &c.Ops[i]
		if st.wa == nil {
			return
		}
		switch op.K {
		case "sleep":
			simrt.Sleep(time.Duration(op.D))
		case "report", "breport":
			if op.Str == "again" {
				// resolved at run time: the part this client submitted last, else the initial one
				op = &Op{K: op.K, Ctx: op.Ctx, D: op.D, Str: op.Str, Part: st.spec.Init}
				if ss := st.subs[c.Name]; ss != nil && ss.has {
					op.Part = r.parts[ss.sure]
				}
				if op.Part == nil || op.Part.BadIface {
					continue
				}
				r.probe("same-value-reported-again")
			}
			v := buildValue(st.typ.Type(), op.Part, st.idx)
			if lv, ok := st.lastVal[c.Name]; ok && op.Str == "again" && r.sc.Prop == "C02" && lv.id == op.Part.ID && r.sim.Step()%2 == 0 {
				v = lv.v // the very same reflect.Value once more
				r.probe("same-reflect-value-reported-twice")
			}
			if lv, ok := st.lastVal[c.Name]; ok && op.Str == "reuse" && !op.Part.BadIface && !op.Part.Share && lv.v.Type() == v.Type() && r.reuseIsSafe(c, lv) {
				// the source keeps one long-lived value and updates it in place
				mergeInPlace(lv.v, v)
				v = lv.v
				for hi := range st.handed {
					if st.handed[hi].v == v {
						st.handed[hi].fp = render(v.Interface()) // the source itself changed it
					}
				}
				r.probe("source-reuses-its-value-object")
			}
			st.lastVal[c.Name] = lastValue{v: v, id: op.Part.ID, shared: op.Part.Share}
			rec := r.begin(c, i, op)
			r.hand(st, v, op.K)
			ctx, cancel := r.opCtx(op, rec)
			var err error
			if op.K == "report" {
				err = st.wa.ReportNewValue(ctx, v)
			} else {
				err = st.wa.BlockingReportNewValue(ctx, v)
			}
			r.end(rec, err)
			cancel()
			if op.K == "breport" && !isCtxErr(err) {
				lv := st.lastVal[c.Name]
				lv.processed = true
				st.lastVal[c.Name] = lv
			}
			if err == nil || op.K == "breport" && !isCtxErr(err) {
				st.submitted(c.Name, op.Part.ID, true)
			} else if op.K == "breport" {
				// submission state unknown: the value may or may not have reached the monitor
				st.submitted(c.Name, op.Part.ID, false)
			}
		case "err":
			rec := r.begin(c, i, op)
			ctx, cancel := r.opCtx(op, rec)
			err := st.wa.ReportError(ctx, fmt.Errorf("%s", op.Str))
			r.end(rec, err)
			cancel()
		case "done":
			rec := r.begin(c, i, op)
			ctx, cancel := r.opCtx(op, rec)
			st.doneTried = true
			st.wa.Done(ctx)
			r.end(rec, nil)
			if ctx.Err() == nil && st.innerWA == nil {
				// (with a watching inner source in place Done is a no-op: the slot is that watcher's)
				st.doneAt = r.sim.Step()
			}
			cancel()
			// (a source may go on reporting after its Done: while another
			// watcher keeps the monitor alive those reports are stacked as usual)
		}
	}
}

func isCtxErr(err error) bool {
	return errors.Is(err, context.Canceled) || errors.Is(err, context.DeadlineExceeded)
}

func (r *Run) reader(c *ClientSpec) {
	for i := range c.Ops {
		op := &c.Ops[i]
		switch op.K {
		case "sleep":
			simrt.Sleep(time.Duration(op.D))
		case "view":
			rec := r.begin(c, i, op)
			rec.Cfg = r.d.View()
			r.end(rec, nil)
		case "vv":
			rec := r.begin(c, i, op)
			cfg, ser := r.d.ViewVersion()
			rec.Cfg = cfg
			n, scfg := serialOf(ser)
			rec.Serial, rec.Ok = n, true
			if scfg != cfg {
				r.fail("C05.pair", "ViewVersion returned config %p with a serial for config %p", cfg, scfg)
			}
			r.end(rec, nil)
		case "events":
			rec := r.begin(c, i, op)
			simrt.Yield("events-recv")
			select {
			case cfg := <-r.d.Events():
				rec.Cfg = cfg
			default:
			}
			r.end(rec, nil)
		}
	}
}

func (r *Run) userCB(h *handle) dials.NewConfigHandler[CfgCore] {
	return func(ctx context.Context, o, n *CfgCore) {
		rec := &CBRec{Kind: "reg", Handle: h.id, Enter: r.sim.Step(), Old: o, New: n}
		if n != nil {
			rec.NewStamps, rec.HasNew = n.stamps(), true
		}
		r.cbs = append(r.cbs, rec)
		switch h.behaviour {
		case "slow":
			simrt.Sleep(50 * time.Millisecond)
		case "stall":
			// returns only once everything else has gone quiet: the queue
			// behind it fills up (and overflows in long runs)
			// (first invocation of the handle only, so the backlog drains afterwards)
			if !h.stalled {
				h.stalled = true
				d := time.Second
				if h.stall > 0 {
					d = h.stall
				}
				simrt.SleepIdle(d)
				r.probe("callback-stalled-until-idle")
			}
		case "reentrant":
			cfg, _ := r.d.ViewVersion()
			_ = cfg
		}
		rec.Exit = r.sim.Step()
	}
}

func (r *Run) globalBehaviour() {
	switch r.sc.GlobalCB {
	case "slow":
		simrt.Sleep(80 * time.Millisecond)
	case "block":
		if r.phase != "teardown" {
			r.probe("callback-blocked")
			simrt.Yield("callback-blocks")
			<-r.never
		}
	}
}

func (r *Run) onNewConfig(ctx context.Context, o, n *CfgCore) {
	rec := &CBRec{Kind: "new", Handle: -1, Enter: r.sim.Step(), Old: o, New: n}
	if n != nil {
		rec.NewStamps, rec.HasNew = n.stamps(), true
	}
	r.cbs = append(r.cbs, rec)
	r.cbSeen++
	r.globalBehaviour()
	rec.Exit = r.sim.Step()
}

func (r *Run) onWatchedError(ctx context.Context, err error, o, n *CfgCore) {
	rec := &CBRec{Kind: "err", Handle: -1, Enter: r.sim.Step(), Old: o, New: n, Err: err}
	if n != nil {
		rec.NewStamps, rec.HasNew = n.stamps(), true
	}
	r.cbs = append(r.cbs, rec)
	r.cbSeen++
	r.globalBehaviour()
	rec.Exit = r.sim.Step()
}

func (r *Run) registrar(c *ClientSpec) {
	var ser dials.CfgSerial[CfgCore]
	var h *handle
	serStep := 0
	zero := true
	for i := range c.Ops {
		op := &c.Ops[i]
		switch op.K {
		case "sleep":
			simrt.Sleep(time.Duration(op.D))
		case "pause":
			simrt.Yield("pause")
		case "serial":
			_, ser = r.d.ViewVersion()
			serStep = r.sim.Step()
			zero = false
		case "serial-zero":
			ser = dials.CfgSerial[CfgCore]{}
			zero = true
			serStep = r.sim.Step()
		case "register":
			h = &handle{id: len(r.handles), client: c.Name, zero: zero, serialStep: serStep, behaviour: op.Str, stall: time.Duration(op.N) * time.Second}
			h.serial, h.serialCfg = serialOf(ser)
			r.handles = append(r.handles, h)
			rec := r.begin(c, i, op)
			rec.Handle = h.id
			ctx, cancel := r.opCtx(op, rec)
			h.regInvoke = r.sim.Step()
			h.unreg = r.d.RegisterCallback(ctx, ser, r.userCB(h))
			h.regReturn = r.sim.Step()
			h.registered = h.unreg != nil
			if cur := r.currentAt(h.regReturn); cur >= 0 {
				h.kAfter = r.installs[cur].Serial
			}
			rec.Ok = h.registered
			r.end(rec, nil)
			cancel()
		case "unregister":
			if h == nil || h.unreg == nil {
				continue
			}
			rec := r.begin(c, i, op)
			rec.Handle = h.id
			ctx, cancel := r.opCtx(op, rec)
			ok := h.unreg(ctx)
			rec.Ok = ok
			r.end(rec, nil)
			if ok && h.unregOK == 0 {
				h.unregOK = rec.Return
			}
			cancel()
		}
	}
}

func (r *Run) enabler(c *ClientSpec) {
	for i := range c.Ops {
		op := &c.Ops[i]
		switch op.K {
		case "sleep":
			simrt.Sleep(time.Duration(op.D))
		case "await-backlog":
			// enable behind a backlog of callback events (or once everybody else is done)
			simrt.YieldWhen("await-backlog", func() bool { return r.queueNow() > r.queueCap() || r.finished >= r.clients-1 })
		case "enable":
			rec := r.begin(c, i, op)
			ctx, cancel := r.opCtx(op, rec)
			cfg, ser, err := r.d.EnableVerification(ctx)
			rec.Cfg = cfg
			rec.Serial, _ = serialOf(ser)
			rec.Ok = err == nil
			r.end(rec, err)
			cancel()
			if err == nil {
				r.enabledOK = true
			}
			if err == nil && r.queueNow() > r.queueCap() {
				r.probe("enable-succeeded-behind-a-full-callback-queue")
			}
		}
	}
}

// stopper cancels the Config context while the other clients are at work.
func (r *Run) stopper(c *ClientSpec) {
	for i := range c.Ops {
		op := &c.Ops[i]
		switch op.K {
		case "sleep":
			simrt.Sleep(time.Duration(op.D))
		case "pause":
			for n := 0; n < op.N; n++ {
				simrt.Yield("pause")
			}
		case "cancel-config":
			rec := r.begin(c, i, op)
			r.cancel()
			r.end(rec, nil)
			r.probe("config-context-cancelled-mid-run")
		}
	}
}

func (r *Run) canceller(c *ClientSpec) {
	op := &c.Ops[0]
	if op.N >= 0 {
		simrt.YieldWhen("await-target-op", func() bool { return r.started[op.Str] })
		for i := 0; i < op.N; i++ {
			simrt.Yield("cancel-delay")
		}
	}
	if f := r.named[op.Str]; f != nil {
		f()
		r.probe("cancel-fired")
		for _, rec := range r.ops {
			if fmt.Sprintf("%s.%d", rec.Client, rec.Idx) == op.Str && rec.Return == 0 {
				rec.CtxEndedAt = r.sim.Step()
				r.probe("cancel-during-op")
			}
		}
	} else {
		// the op has not created its context yet: cancel as soon as it does
		simrt.YieldWhen("await-target-ctx", func() bool { return r.named[op.Str] != nil })
		if f := r.named[op.Str]; f != nil {
			f()
		}
	}
}

func (r *Run) blankClient(c *ClientSpec) {
	st := r.srcs[c.Src]
	var lastInner *innerStatic
	for i := range c.Ops {
		op := &c.Ops[i]
		switch op.K {
		case "sleep":
			simrt.Sleep(time.Duration(op.D))
		case "pause":
			for n := 0; n < op.N; n++ {
				simrt.Yield("pause")
			}
		case "setsource":
			if op.Str == "retry" {
				// the very same source object once more (typically after a failed attempt)
				if lastInner == nil {
					continue
				}
				op = &Op{K: op.K, Ctx: op.Ctx, D: op.D, Str: "retry", Part: lastInner.part}
				r.probe("setsource-same-object-again")
			}
			inner := &innerStatic{r: r, st: st, part: op.Part, fail: op.Str == "fail"}
			if op.Str == "retry" {
				inner = lastInner
			} else if op.Str != "fail" {
				lastInner = inner
			}
			rec := r.begin(c, i, op)
			ctx, cancel := r.opCtx(op, rec)
			var src dials.Source = inner
			if op.Str == "watch" {
				src = &innerWatcher{*inner}
			}
			err := st.blank.SetSource(ctx, src)
			r.end(rec, err)
			cancel()
			if err == nil {
				st.submitted(c.Name, op.Part.ID, true)
			} else if op.Str != "fail" {
				// SetSource reports rejections and context errors alike as
				// "failed to propagate change": delivery unknown
				st.submitted(c.Name, op.Part.ID, !isCtxErr(err))
			}
		case "bdone":
			rec := r.begin(c, i, op)
			ctx, cancel := r.opCtx(op, rec)
			st.blank.Done(ctx)
			r.end(rec, nil)
			if ctx.Err() == nil && st.innerWA == nil {
				// (with a watching inner source in place Done is a no-op: the slot is that watcher's)
				st.doneAt = r.sim.Step()
			}
			cancel()
			return
		}
	}
}

// ---- building and driving a run ----

func newRun(sc *Scenario) *Run {
	r := &Run{sc: sc, parts: map[uint64]*Part{}, owner: map[uint64]int{}, byPtr: map[*CfgCore]int{},
		named: map[string]context.CancelFunc{}, started: map[string]bool{}, probes: map[string]int{},
		freshFP: map[[4]uint64]*freshRes{}}
	for i := range sc.Sources {
		if p := sc.Sources[i].Init; p != nil {
			r.parts[p.ID] = p
			r.owner[p.ID] = i
		}
	}
	for ci := range sc.Clients {
		c := &sc.Clients[ci]
		for oi := range c.Ops {
			if p := c.Ops[oi].Part; p != nil {
				r.parts[p.ID] = p
				r.owner[p.ID] = c.Src
			}
		}
	}
	return r
}

// funcSource adapts a function to dials.Source, as http.HandlerFunc does for
// handlers: a perfectly good Source whose dynamic type is not hashable.
type funcSource func(context.Context, *dials.Type) (reflect.Value, error)

func (f funcSource) Value(ctx context.Context, t *dials.Type) (reflect.Value, error) {
	return f(ctx, t)
}

func (r *Run) buildSources() []dials.Source {
	var out []dials.Source
	for i := range r.sc.Sources {
		st := &srcState{idx: i, spec: r.sc.Sources[i], subs: map[string]*subState{}, lastVal: map[string]lastValue{}}
		r.srcs = append(r.srcs, st)
		switch st.spec.Kind {
		case "static":
			st.src = &simStatic{st: st, r: r}
			if st.spec.FuncTyped {
				st.src = funcSource(st.src.Value)
			}
		case "watch":
			st.src = &simWatcher{simStatic{st: st, r: r}}
		case "blank":
			st.blank = &sourcewrap.Blank{}
			st.src = st.blank
		case "file":
			r.setupFile(st)
		default:
			panic("harness: unknown source kind " + st.spec.Kind)
		}
		if st.spec.Wrapped {
			st.src = sourcewrap.NewTransformingSource(st.src)
		}
		out = append(out, st.src)
	}
	return out
}

func (r *Run) params() dials.Params[CfgCore] {
	if r.sc.NoGlobalCB {
		return dials.Params[CfgCore]{
			SkipInitialVerification:                     r.sc.Skip,
			DelayInitialVerification:                    r.sc.Delay,
			CallGlobalCallbacksAfterVerificationEnabled: r.sc.Suppress,
		}
	}
	return dials.Params[CfgCore]{
		OnWatchedError:           r.onWatchedError,
		OnNewConfig:              r.onNewConfig,
		SkipInitialVerification:  r.sc.Skip,
		DelayInitialVerification: r.sc.Delay,
		CallGlobalCallbacksAfterVerificationEnabled: r.sc.Suppress,
	}
}

func (r *Run) allClientsDone() bool { return r.finished >= r.clients }
