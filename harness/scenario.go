package main

import (
	"fmt"
	"math/rand/v2"

	"simrt"
)

// Scenario is everything that decides one run, as plain data: it is what a
// replay file contains. The schedule is Seed (PRNG) preceded by the explicit
// Choices prefix.
type Scenario struct {
	Prop        string         `json:"prop"`
	Seed        uint64         `json:"seed"`
	Faulty      bool           `json:"faulty"`
	Skip        bool           `json:"skip_initial_verification,omitempty"`
	Delay       bool           `json:"delay_initial_verification,omitempty"`
	Suppress    bool           `json:"suppress_global_callbacks,omitempty"`
	NoVerify    bool           `json:"no_verify_method,omitempty"`
	NoGlobalCB  bool           `json:"no_global_callbacks,omitempty"` // Params.OnNewConfig / OnWatchedError left nil
	FlakyVerify bool           `json:"flaky_verify,omitempty"`        // Verify is not a pure function of the config: once verification has been switched on, verifying an already installed config again fails
	VerifyStall int            `json:"verify_stall,omitempty"`        // the n-th Verify call keeps the monitor busy until everybody else is idle (0: none)
	Defaults    Part           `json:"defaults"`
	Sources     []SourceSpec   `json:"sources"`
	Clients     []ClientSpec   `json:"clients"`
	GlobalCB    string         `json:"global_cb"` // instant | slow | block
	Bias        simrt.Bias     `json:"bias"`
	Shutdown    string         `json:"shutdown"` // cancel | done
	Late        bool           `json:"late_calls,omitempty"`
	MaxSteps    int            `json:"max_steps"`
	Rates       map[string]int `json:"fault_rates,omitempty"`
	Choices     []int          `json:"choices,omitempty"`
	File        *FileSpec      `json:"file,omitempty"`
	Ez          *EzSpec        `json:"ez,omitempty"`
	FB          *FileBlankSpec `json:"file_blank,omitempty"`
	Stream      *StreamSpec    `json:"stream,omitempty"`
	Wrap        *WrapSpec      `json:"wrap,omitempty"`
	Plain       *PlainSpec     `json:"plain,omitempty"`
}

type SourceSpec struct {
	Kind      string   `json:"kind"` // static | watch | blank | twatch | tstatic | file
	Init      *Part    `json:"init,omitempty"`
	ValueErr  bool     `json:"value_err,omitempty"`
	WatchErr  bool     `json:"watch_err,omitempty"`
	Manglers  []string `json:"manglers,omitempty"`
	Wrapped   bool     `json:"wrapped,omitempty"`    // behind sourcewrap.NewTransformingSource (no manglers): must behave exactly as without
	FuncTyped bool     `json:"func_typed,omitempty"` // a static source that is a func value with a Value method (an adapter in the http.HandlerFunc style): comparable only by panicking
}

type ClientSpec struct {
	Name string `json:"name"`
	Kind string `json:"kind"` // reporter | reader | registrar | enabler | canceller | blank | mutator | writer
	Src  int    `json:"src,omitempty"`
	Ops  []Op   `json:"ops"`
}

type Op struct {
	K    string `json:"k"`
	Part *Part  `json:"part,omitempty"`
	D    int64  `json:"d,omitempty"`   // nanoseconds: sleep length / deadline
	Ctx  string `json:"ctx,omitempty"` // "" (run context) | deadline | expired | named:<n> (cancelled by a canceller)
	N    int    `json:"n,omitempty"`
	Str  string `json:"str,omitempty"`
}

type gen struct {
	r      *rand.Rand
	nextID uint64
	sc     *Scenario
}

func (g *gen) pct(p int) bool { return g.r.IntN(100) < p }
func (g *gen) in(lo, hi int) int {
	if hi <= lo {
		return lo
	}
	return lo + g.r.IntN(hi-lo+1)
}
func (g *gen) id() uint64 { g.nextID++; return g.nextID }

func ip(v int) *int           { return &v }
func sp(v string) *string     { return &v }
func bp(v bool) *bool         { return &v }
func i64p(v int64) *int64     { return &v }
func f64p(v float64) *float64 { return &v }

var words = []string{"alpha", "beta", "gamma", "delta", "eps"}

// part draws a partial config. pInvalid steers how often the verification
// inputs are touched in the invalid direction; richness is the per-leaf
// probability of being set.
func (g *gen) part(richness, pInvalid int, allowBad bool) *Part {
	p := &Part{ID: g.id()}
	n := int(p.ID)
	if g.pct(richness) {
		p.I = ip(n*10 + 1)
	}
	if g.pct(richness) {
		p.S = sp(fmt.Sprintf("s%d", n))
	}
	if g.pct(richness) {
		p.Dur = i64p(int64(n) * 1e9)
	}
	if g.pct(richness / 2) {
		p.F = f64p(float64(n) + 0.5)
	}
	if g.pct(richness / 2) {
		p.B = bp(n%2 == 0)
	}
	if g.pct(richness / 2) {
		p.P = ip(n*10 + 2)
	}
	if g.pct(richness) {
		k := g.in(0, 3)
		p.Strs = make([]string, k)
		for i := range p.Strs {
			p.Strs[i] = fmt.Sprintf("%s%d", words[g.r.IntN(len(words))], n)
		}
	}
	if g.pct(richness) {
		p.M = map[string]int{}
		for i, k := 0, g.in(0, 3); i < k; i++ {
			p.M[words[g.r.IntN(len(words))]] = n*10 + i
		}
	}
	if g.pct(richness / 2) {
		p.Set = []string{fmt.Sprintf("e%d", n)}
	}
	if g.pct(richness / 3) {
		for i, k := 0, g.in(1, 2); i < k; i++ {
			p.SM = append(p.SM, map[string]int{words[g.r.IntN(len(words))]: n*10 + i})
		}
	}
	if g.pct(richness / 3) {
		p.MM = map[string][]string{words[g.r.IntN(len(words))]: {fmt.Sprintf("mm%d", n)}}
	}
	if g.pct(richness / 3) {
		p.MA = map[string]int{}
		for i, k := 0, g.in(1, 4); i < k; i++ {
			p.MA[words[g.r.IntN(len(words))]] = n*10 + g.in(0, 1)
		}
	}
	if g.pct(richness / 3) {
		for i, k := 0, g.in(1, 3); i < k; i++ {
			p.Sh = append(p.Sh, fmt.Sprintf("sh%d-%d", n, i))
		}
	}
	if g.pct(richness / 3) {
		for i, k := 0, g.in(1, 3); i < k; i++ {
			p.KP = append(p.KP, fmt.Sprintf("%s%d", words[g.r.IntN(len(words))], n))
		}
	}
	if g.pct(richness / 3) {
		for i, k := 0, g.in(1, 2); i < k; i++ {
			p.Pairs = append(p.Pairs, [2]int{n*10 + i, n*10 + i + 5})
		}
	}
	if g.pct(richness / 3) {
		p.Arr = []string{fmt.Sprintf("a%d", n), fmt.Sprintf("b%d", n)}
	}
	if g.pct(richness / 3) {
		p.When = sp(fmt.Sprintf("2022-05-%02dT06:07:08Z", 1+n%27))
	}
	if g.pct(richness / 3) {
		for i, k := 0, g.in(1, 2); i < k; i++ {
			p.Peers = append(p.Peers, PeerSpec{S: fmt.Sprintf("peer%d-%d", n, i), X: n*10 + i})
		}
	}
	if g.pct(richness / 3) {
		p.PM = map[string]string{words[g.r.IntN(len(words))]: fmt.Sprintf("pm%d", n)}
	}
	if g.pct(richness / 2) {
		p.PWhen = sp(fmt.Sprintf("2023-07-%02dT08:09:10Z", 1+n%27))
	}
	if g.pct(richness / 3) {
		p.TU = sp(fmt.Sprintf("tu%d", n))
	}
	if g.pct(richness / 3) {
		p.Held = sp(fmt.Sprintf("held%d", n))
	}
	if g.pct(richness / 8) {
		p.Chain = g.in(40, 70)
	}
	if g.pct(richness) {
		p.NestS = sp(fmt.Sprintf("ns%d", n))
	}
	if g.pct(richness / 2) {
		p.NestN = ip(n*10 + 3)
	}
	if g.pct(richness / 2) {
		p.NestX = ip(n*10 + 4)
	}
	if g.pct(richness / 2) {
		p.PNS = sp(fmt.Sprintf("pn%d", n))
	}
	if g.pct(richness / 2) {
		p.PNN = ip(n*10 + 5)
	}
	if g.pct(richness / 2) {
		p.EmbA = ip(n*10 + 6)
	}
	if g.pct(richness / 2) {
		p.EmbS = sp(fmt.Sprintf("em%d", n))
	}
	if g.pct(richness) {
		p.After = ip(n*10 + 7)
	}
	if g.pct(richness / 2) {
		p.Iface = sp(fmt.Sprintf("if%d", n))
	}
	if pInvalid > 0 {
		if g.pct(45) {
			if g.pct(pInvalid) {
				p.Lo = ip(g.in(6, 9))
			} else {
				p.Lo = ip(g.in(0, 4))
			}
		}
		if g.pct(30) {
			p.Hi = ip(g.in(4, 9))
		}
		if g.pct(25) {
			p.Forbidden = bp(g.pct(pInvalid))
		}
		if allowBad && g.pct(pInvalid/8) {
			p.BadIface = true
		}
	}
	return p
}

func (g *gen) ctxKind(pDeadline, pExpired int) (string, int64) {
	switch {
	case g.pct(pExpired):
		return "expired", 0
	case g.pct(pDeadline):
		return "deadline", int64(g.in(1, 2000)) * 1e6
	}
	return "", 0
}

// knobs select the workload family of one property.
type knobs struct {
	watchMin, watchMax int
	staticMax          int
	pInvalid           int // percent
	allowBad           bool
	pBlocking          int
	reporterOps        [2]int
	secondReporter     int // percent of runs with two reporters on one source
	readers            [2]int
	registrars         [2]int
	enablers           int // percent of delayed runs with an enabler (else always when Delay)
	pSkip, pDelay      int
	pSuppress          int
	errOps             int // percent of reporter ops that are ReportError
	doneOps            int // percent of reporters ending with Done
	cancellers         int // percent of blocking ops with a canceller
	pDeadline          int
	pExpired           int
	cbSlow, cbBlock    int // percent of runs
	long               int // one run in `long` is long
	blank              int // percent of watching sources that are Blanks driven by a blank client
	lifecycle          bool
	mutator            bool
	share              int
	stopper            int // percent of runs in which the Config context is cancelled while clients are still at work
}

func knobsFor(prop string, faulty bool) knobs {
	k := knobs{watchMin: 1, watchMax: 3, staticMax: 2, pBlocking: 30, reporterOps: [2]int{1, 6},
		readers: [2]int{0, 2}, registrars: [2]int{0, 1}, long: 25}
	if faulty {
		k.pInvalid = 40
		k.allowBad = true
		k.pSkip, k.pDelay = 15, 0
	}
	switch prop {
	case "C05":
		k.watchMax = 4
		k.secondReporter = 33
		k.readers = [2]int{1, 3}
		if faulty {
			k.cancellers = 25
			k.pDeadline = 10
			k.doneOps = 20 // a watcher that is finished keeps its place and its last value in the stack
			// "or the last view that verified": which views were verified depends
			// on the verification regime, and on when it is switched on
			k.pDelay = 12
			k.enablers = 100
		}
	case "C04":
		k.pSuppress = 30
		k.readers = [2]int{1, 3}
		k.registrars = [2]int{0, 2}
		k.pInvalid = 40
		k.allowBad = true
		k.pSkip, k.pDelay = 25, 25
		k.enablers = 100
		if faulty {
			k.cancellers = 20
			k.cbSlow = 20
		}
	case "C06":
		k.watchMax = 2
		k.registrars = [2]int{1, 4}
		k.readers = [2]int{0, 1}
		k.reporterOps = [2]int{2, 8}
		if faulty {
			k.cbSlow = 40
			k.pInvalid = 25
			k.long = 8
			k.stopper = 12
		}
	case "C07":
		k.watchMin, k.watchMax = 1, 3 // (with a single reporter a source may also update its value object in place and report it again)
		k.pBlocking = 70
		k.secondReporter = 30 // two blocking reports of ONE source in flight at the same time
		k.blank = 30
		k.pInvalid = 35
		k.allowBad = true
		k.cancellers = 0
		if faulty {
			k.cancellers = 60
			k.pDeadline = 15
			k.pExpired = 8
			// with every watcher Done the monitor is gone while the Config
			// context lives on: a blocking call then ends with ITS context
			k.doneOps = 20
		}
	case "C08":
		k.lifecycle = true
		k.registrars = [2]int{1, 3}
		k.errOps = 15
		k.doneOps = 50
		k.pInvalid = 30
		k.allowBad = true
		k.pSkip, k.pDelay = 15, 30
		k.enablers = 100
		k.blank = 25
		k.cancellers = 40
		k.pDeadline = 15
		k.pExpired = 10
		k.cbBlock = 25
		k.cbSlow = 15
		k.long = 10
		k.stopper = 15
	case "C09":
		k.pDelay = 80
		k.pSkip = 5
		k.pSuppress = 50
		k.enablers = 100
		k.errOps = 25
		k.pInvalid = 35
		k.watchMin = 0
		k.registrars = [2]int{0, 2}
		// the last watcher finishing while the delay is still in force (the
		// monitor goes away; nobody has asked for verification)
		k.doneOps = 25
		if faulty {
			k.pExpired = 10
			k.pDeadline = 10
			k.cbSlow = 30
			k.long = 8
		}
	case "C02":
		k.doneOps = 35
		k.mutator = true
		k.share = 60
		k.blank = 25 // (a stack in which no source sets anything is the defaults alone)
		k.watchMin, k.watchMax = 2, 4
		k.readers = [2]int{0, 1}
		if faulty {
			k.pInvalid = 35
		}
	}
	return k
}

// genCore draws a scenario of the core family for prop.
func genCore(prop string, seed uint64, faulty bool) *Scenario {
	g := &gen{r: rand.New(rand.NewPCG(seed, 0x5eed5eed))}
	k := knobsFor(prop, faulty)
	sc := &Scenario{Prop: prop, Seed: seed, Faulty: faulty, GlobalCB: "instant", Shutdown: "cancel", MaxSteps: 6000}
	g.sc = sc
	long := k.long > 0 && g.r.IntN(k.long) == 0
	if long {
		sc.MaxSteps = 60000
	}
	// every option combination occurs in every property's runs (at a low base
	// rate where the property does not ask for more)
	base := func(p, min int) int {
		if p < min {
			return min
		}
		return p
	}
	sc.Skip = g.pct(base(k.pSkip, 8))
	// (both options together: the delay is in force all the same)
	sc.Delay = g.pct(base(k.pDelay, 10))
	sc.Suppress = g.pct(base(k.pSuppress, 12))
	if k.enablers == 0 {
		k.enablers = 70
	}
	// defaults: valid by themselves
	d := g.part(50, 0, false)
	d.ID = 0
	d.Iface = nil
	d.P = nil
	d.Lo, d.Hi = ip(0), ip(5)
	if k.share > 0 && g.pct(k.share) {
		d.P, d.NestX, d.Share = ip(41), ip(41), true
	}
	if g.pct(40) {
		// the embedded struct's own M: shadowed by CfgCore.M, reachable as cfg.Emb.M
		d.EmbM = map[string]int{words[g.r.IntN(len(words))]: 71, "emb": 72}
	}
	sc.Defaults = *d

	nWatch := g.in(k.watchMin, k.watchMax)
	nStatic := g.in(0, k.staticMax)
	if nWatch+nStatic > 4 {
		nStatic = 4 - nWatch
	}
	if nWatch+nStatic == 0 {
		nStatic = 1
	}
	if g.pct(3) {
		// no source at all: the stack is the defaults alone, which need not verify
		nWatch, nStatic = 0, 0
		if g.pct(50) {
			sc.Defaults.Lo, sc.Defaults.Hi = ip(7), ip(3)
		}
	}
	kinds := make([]string, 0, 4)
	for i := 0; i < nWatch; i++ {
		if g.pct(k.blank) {
			kinds = append(kinds, "blank")
		} else {
			kinds = append(kinds, "watch")
		}
	}
	for i := 0; i < nStatic; i++ {
		kinds = append(kinds, "static")
	}
	g.r.Shuffle(len(kinds), func(a, b int) { kinds[a], kinds[b] = kinds[b], kinds[a] })
	initInvalid := 0
	if k.pInvalid > 0 && !sc.Skip && !sc.Delay {
		initInvalid = 8 // the initial stack is occasionally invalid: Config must fail
	} else if k.pInvalid > 0 {
		initInvalid = k.pInvalid
	}
	for _, kind := range kinds {
		s := SourceSpec{Kind: kind}
		if (kind == "blank" && g.pct(30)) || (kind == "watch" && g.pct(8)) {
			s.Wrapped = true
		}
		if kind == "static" && g.pct(20) {
			s.FuncTyped = true
		}
		if kind != "blank" {
			s.Init = g.part(35, initInvalid, false)
			if k.share > 0 && g.pct(k.share) && s.Init.P != nil {
				s.Init.NestX, s.Init.Share = ip(*s.Init.P), true
			}
		}
		sc.Sources = append(sc.Sources, s)
	}

	if (prop == "C06" && g.pct(25)) || g.pct(6) {
		sc.NoGlobalCB = true
	}
	if faulty && !sc.Skip && !sc.Delay && (prop == "C07" || prop == "C08") && g.pct(15) {
		sc.VerifyStall = g.in(2, 4) // (the first call is Config's own)
	}
	if sc.Delay && nWatch > 0 && g.pct(25) {
		// (certificate expiry, "file exists", ...: a config that passed may fail later)
		sc.FlakyVerify = true
	}
	if g.pct(k.cbSlow) {
		sc.GlobalCB = "slow"
	} else if g.pct(k.cbBlock) {
		sc.GlobalCB = "block"
	}

	// reporters (one per watching source, sometimes two) and blank clients
	for i, s := range sc.Sources {
		switch s.Kind {
		case "watch":
			n := 1
			if g.pct(k.secondReporter) {
				n = 2
			}
			for j := 0; j < n; j++ {
				c := ClientSpec{Name: fmt.Sprintf("rep%d.%d", i, j), Kind: "reporter", Src: i}
				nops := g.in(k.reporterOps[0], k.reporterOps[1])
				if long {
					nops = g.in(40, 150)
				}
				kr := k
				if s.Wrapped {
					// an ill-typed value never gets past the wrapper's reverse
					// translation: that is the wrapper's error, not a stacking failure
					kr.allowBad = false
				}
				for o := 0; o < nops; o++ {
					c.Ops = append(c.Ops, g.reporterOp(kr, &c, len(c.Ops)))
				}
				if j == 0 && n == 1 && g.pct(k.doneOps) {
					c.Ops = append(c.Ops, Op{K: "done"})
					if g.pct(25) {
						// Done once more (a deferred clean-up plus an explicit call):
						// one finished source, not two
						c.Ops = append(c.Ops, Op{K: "done"})
					}
					if g.pct(30) {
						// it keeps reporting after its Done
						for o, m := 0, g.in(1, 2); o < m; o++ {
							c.Ops = append(c.Ops, g.reporterOp(kr, &c, len(c.Ops)))
						}
					}
				}
				sc.Clients = append(sc.Clients, c)
			}
		case "blank":
			c := ClientSpec{Name: fmt.Sprintf("blank%d", i), Kind: "blank", Src: i}
			for o, n := 0, g.in(1, 4); o < n; o++ {
				op := Op{K: "setsource", Str: "static", Part: g.part(40, k.pInvalid, false)}
				if k.lifecycle && g.pct(15) {
					op.Str = "fail"
				}
				op.Ctx, op.D = g.ctxKind(k.pDeadline, k.pExpired)
				if k.lifecycle && op.Str == "static" && g.pct(15) {
					// a watching inner source, set with a context of the caller's
					// own: the Blank hands its slot over (and refuses to replace it)
					op.Str, op.Ctx, op.D = "watch", "own", 0
				}
				c.Ops = append(c.Ops, op)
				if op.Str != "fail" && g.pct(30) {
					c.Ops = append(c.Ops, Op{K: "setsource", Str: "retry"})
				}
				if g.pct(30) {
					c.Ops = append(c.Ops, Op{K: "sleep", D: int64(g.in(1, 500)) * 1e6})
				}
			}
			if g.pct(k.doneOps) {
				c.Ops = append(c.Ops, Op{K: "bdone"})
			}
			sc.Clients = append(sc.Clients, c)
			if k.lifecycle && g.pct(25) {
				// somebody else calls Blank.Done while SetSource calls are in flight
				sc.Clients = append(sc.Clients, ClientSpec{Name: fmt.Sprintf("bdone%d", i), Kind: "blankdone", Src: i,
					Ops: []Op{{K: "pause", N: g.in(0, 80)}, {K: "bdone"}}})
			}
		}
	}
	// cancellers for blocking ops
	var cancels []ClientSpec
	for ci := range sc.Clients {
		c := &sc.Clients[ci]
		for oi := range c.Ops {
			op := &c.Ops[oi]
			if (op.K == "breport" || op.K == "setsource" || op.K == "report") && op.Ctx == "" && g.pct(k.cancellers) {
				name := fmt.Sprintf("%s.%d", c.Name, oi)
				op.Ctx = "named:" + name
				cancels = append(cancels, ClientSpec{Name: "cancel-" + name, Kind: "canceller",
					Ops: []Op{{K: "cancel", Str: name, N: g.in(-1, 6)}}})
			}
		}
	}
	sc.Clients = append(sc.Clients, cancels...)
	for i, n := 0, g.in(k.readers[0], k.readers[1]); i < n; i++ {
		c := ClientSpec{Name: fmt.Sprintf("reader%d", i), Kind: "reader"}
		nops := g.in(2, 8)
		if long {
			nops = g.in(20, 80)
		}
		for o := 0; o < nops; o++ {
			switch g.r.IntN(5) {
			case 0:
				c.Ops = append(c.Ops, Op{K: "view"})
			case 1, 2:
				c.Ops = append(c.Ops, Op{K: "vv"})
			case 3:
				c.Ops = append(c.Ops, Op{K: "events"})
			case 4:
				c.Ops = append(c.Ops, Op{K: "sleep", D: int64(g.in(1, 300)) * 1e6})
			}
		}
		sc.Clients = append(sc.Clients, c)
	}
	for i, n := 0, g.in(k.registrars[0], k.registrars[1]); i < n; i++ {
		sc.Clients = append(sc.Clients, g.registrar(k, i, long))
	}
	if sc.Delay && g.pct(k.enablers) {
		c := ClientSpec{Name: "enabler", Kind: "enabler"}
		if long && g.pct(50) {
			// enable late: behind a backlog of callback events if there ever is one
			c.Ops = append(c.Ops, Op{K: "await-backlog"})
		}
		for o, n := 0, g.in(1, 4); o < n; o++ {
			op := Op{K: "enable"}
			op.Ctx, op.D = g.ctxKind(k.pDeadline, k.pExpired)
			c.Ops = append(c.Ops, op)
			if g.pct(50) {
				c.Ops = append(c.Ops, Op{K: "sleep", D: int64(g.in(1, 400)) * 1e6})
			}
		}
		sc.Clients = append(sc.Clients, c)
	}
	if g.pct(base(k.stopper, 4)) {
		// the Config context ends at an arbitrary point of everybody else's work
		c := ClientSpec{Name: "stopper", Kind: "stopper"}
		for o, n := 0, g.in(0, 3); o < n; o++ {
			if g.pct(50) {
				c.Ops = append(c.Ops, Op{K: "pause", N: g.in(1, 300)})
			} else {
				c.Ops = append(c.Ops, Op{K: "sleep", D: int64(g.in(1, 600)) * 1e6})
			}
		}
		c.Ops = append(c.Ops, Op{K: "cancel-config"})
		sc.Clients = append(sc.Clients, c)
	}
	if k.mutator {
		c := ClientSpec{Name: "mutator", Kind: "mutator"}
		for o, n := 0, g.in(1, 5); o < n; o++ {
			c.Ops = append(c.Ops, Op{K: "mutate", Str: []string{"view", "vv", "events", "callback", "defaults"}[g.r.IntN(5)]})
			if g.pct(40) {
				c.Ops = append(c.Ops, Op{K: "sleep", D: int64(g.in(1, 300)) * 1e6})
			}
		}
		sc.Clients = append(sc.Clients, c)
	}
	if sc.GlobalCB == "block" {
		// with a callback that never returns, registration and unregistration
		// legitimately wait for the callback goroutine: they must carry their
		// own deadline
		for ci := range sc.Clients {
			for oi := range sc.Clients[ci].Ops {
				op := &sc.Clients[ci].Ops[oi]
				if (op.K == "register" || op.K == "unregister") && op.Ctx == "" {
					op.Ctx, op.D = "deadline", int64(g.in(1, 2000))*1e6
				}
			}
		}
	}
	{
		hasDone := false
		for _, c := range sc.Clients {
			for _, op := range c.Ops {
				if op.K == "done" || op.K == "bdone" || op.K == "cancel-config" {
					hasDone = true
				}
			}
		}
		if hasDone {
			// (a context of the caller's own that never ends is no good then)
			for ci := range sc.Clients {
				for oi := range sc.Clients[ci].Ops {
					if op := &sc.Clients[ci].Ops[oi]; op.K == "setsource" && op.Str == "watch" {
						op.Str, op.Ctx = "static", ""
					}
				}
			}
			// once every watcher is Done the monitor is gone and pending calls
			// may block until their own context ends: give every call one
			for ci := range sc.Clients {
				for oi := range sc.Clients[ci].Ops {
					op := &sc.Clients[ci].Ops[oi]
					switch op.K {
					case "report", "breport", "err", "done", "bdone", "setsource", "register", "unregister", "enable":
						if op.Ctx == "" {
							op.Ctx, op.D = "deadline", int64(g.in(500, 4000))*1e6
						}
					}
				}
			}
		}
	}
	if k.lifecycle {
		sc.Late = true
		if g.pct(50) {
			sc.Shutdown = "done"
		}
	}
	// scheduler bias
	switch g.r.IntN(6) {
	case 0:
		sc.Bias.Sticky = g.in(30, 90)
	case 1:
		sc.Bias.Starve = []string{"dials.go", "cb_mgr.go", "rep", "reader", "reg"}[g.r.IntN(5)]
		sc.Bias.StarveTill = g.in(20, 400)
	}
	return sc
}

func (g *gen) reporterOp(k knobs, c *ClientSpec, idx int) Op {
	switch {
	case g.pct(k.errOps):
		return Op{K: "err", Str: fmt.Sprintf("source-error-%s-%d", c.Name, idx)}
	case g.pct(15):
		return Op{K: "sleep", D: int64(g.in(1, 400)) * 1e6}
	}
	op := Op{K: "report", Part: g.part(35, k.pInvalid, k.allowBad)}
	if g.pct(k.pBlocking) {
		op.K = "breport"
	}
	if g.pct(12) {
		// report once more exactly what this source reported last (or returned
		// initially): the stack does not change
		op.Part, op.Str = nil, "again"
	} else if g.pct(15) {
		op.Str = "reuse" // new content, written into the value object reported before
	}
	if op.Part != nil && k.share > 0 && g.pct(k.share) && op.Part.P != nil {
		op.Part.NestX, op.Part.Share = ip(*op.Part.P), true
	}
	op.Ctx, op.D = g.ctxKind(k.pDeadline, k.pExpired)
	return op
}

func (g *gen) registrar(k knobs, i int, long bool) ClientSpec {
	c := ClientSpec{Name: fmt.Sprintf("reg%d", i), Kind: "registrar"}
	rounds := g.in(1, 2)
	if long {
		rounds = g.in(2, 6)
	}
	for r := 0; r < rounds; r++ {
		if g.pct(40) {
			c.Ops = append(c.Ops, Op{K: "sleep", D: int64(g.in(1, 300)) * 1e6})
		}
		switch g.r.IntN(6) {
		case 0:
			c.Ops = append(c.Ops, Op{K: "serial-zero"})
		default:
			c.Ops = append(c.Ops, Op{K: "serial"})
		}
		for p, n := 0, g.in(0, 3); p < n; p++ { // stale serial: pause between ViewVersion and RegisterCallback
			if g.pct(50) {
				c.Ops = append(c.Ops, Op{K: "pause"})
			} else {
				c.Ops = append(c.Ops, Op{K: "sleep", D: int64(g.in(1, 200)) * 1e6})
			}
		}
		cb := "instant"
		if g.pct(k.cbSlow) {
			cb = "slow"
			if g.pct(35) {
				cb = "stall"
			}
		} else if g.pct(10) {
			cb = "reentrant"
		}
		reg := Op{K: "register", Str: cb}
		if cb == "stall" {
			reg.N = []int{1, 2, 4, 8}[g.r.IntN(4)] // seconds
		}
		if k.lifecycle {
			reg.Ctx, reg.D = g.ctxKind(k.pDeadline, k.pExpired)
		}
		c.Ops = append(c.Ops, reg)
		for p, n := 0, g.in(0, 4); p < n; p++ {
			if g.pct(50) {
				c.Ops = append(c.Ops, Op{K: "pause"})
			} else {
				c.Ops = append(c.Ops, Op{K: "sleep", D: int64(g.in(1, 400)) * 1e6})
			}
		}
		if g.pct(70) {
			un := Op{K: "unregister"}
			if k.lifecycle || g.pct(10) {
				un.Ctx, un.D = g.ctxKind(k.pDeadline+5, k.pExpired+5)
			} else if g.pct(25) {
				// a short deadline: behind a slow callback the first attempt gives up
				un.Ctx, un.D = "deadline", int64(g.in(1, 60))*1e6
			}
			c.Ops = append(c.Ops, un)
			if (k.lifecycle && g.pct(40)) || (un.Ctx != "" && g.pct(60)) {
				c.Ops = append(c.Ops, Op{K: "unregister"}) // twice: allowed, and true means "no more calls"
			}
		}
	}
	return c
}
