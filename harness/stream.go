package main

import (
	"context"
	"errors"
	"fmt"
	"io"
	"math/rand/v2"
	"net"
	"reflect"
	"sort"
	"strconv"
	"strings"
	"time"

	"github.com/vimeo/dials"
	cuedec "github.com/vimeo/dials/decoders/cue"
	jsondec2 "github.com/vimeo/dials/decoders/json"
	tomldec "github.com/vimeo/dials/decoders/toml"
	yamldec "github.com/vimeo/dials/decoders/yaml"
	"github.com/vimeo/dials/sourcewrap"
	"github.com/vimeo/dials/transform"
)

// ---- C13: decoders behind a faulty reader (DESIGN §4 C13) ----

type DocIn struct {
	Host string `dials:"host_name"`
	Port int    `dials:"portNum"`
}

type DocPeer struct {
	Addr    string        `dials:"peer_addr"`
	Weight  int           `dials:"weightValue"`
	Timeout time.Duration `dials:"dial_timeout"`
	Since   time.Time     `dials:"since"` // a text-unmarshaling struct by value inside a slice element
	dialed  int           // an unexported field (bookkeeping of the application) inside a slice element
	Ωmega   int           `dials:"omega"`
	Retry   *DocRetry     `dials:"retry"` // a pointer-to-struct section inside a slice element: each element has its own
}

// DocSize is a defined int64 type with a text form of its own; DocCount a
// plain one. Neither is a duration.
type DocSize int64

func (d *DocSize) UnmarshalText(b []byte) error {
	n, ok := strings.CutSuffix(string(b), "MB")
	if !ok {
		return fmt.Errorf("size %q: want <n>MB", b)
	}
	v, err := strconv.ParseInt(n, 10, 64)
	if err != nil {
		return err
	}
	*d = DocSize(v << 20)
	return nil
}

type DocCount int64

type DocRetry struct {
	Count   int           `dials:"count"`
	Backoff time.Duration `dials:"backoff"`
}

var _ = DocPeer{}.dialed

// DocEmb is embedded in CfgDoc: JSON and Cue read an embedded struct's leaves
// from the enclosing object, YAML and TOML from a table named after the type
// unless the YAML decoder is told to flatten anonymous fields.
type DocEmb struct {
	EmbN  int    `dials:"emb_n"`
	EmbS  string `dials:"emb_s"`
	EmbIn DocIn  `dials:"emb_in"` // a section inside the embedded struct
}

// A chain of nested structs, 10 levels deep, with tagged leaves at the bottom.
type DL1 struct {
	Next DL2 `dials:"next"`
}

type DL2 struct {
	Next DL3 `dials:"next"`
}

type DL3 struct {
	Next DL4 `dials:"next"`
}

type DL4 struct {
	Next DL5 `dials:"next"`
}

type DL5 struct {
	Next DL6 `dials:"next"`
}

type DL6 struct {
	Next DL7 `dials:"next"`
}

type DL7 struct {
	Next DL8 `dials:"next"`
}

type DL8 struct {
	Next DL9 `dials:"next"`
}

type DL9 struct {
	Next DL10 `dials:"next"`
}

type DL10 struct {
	Label string        `dials:"leaf_label"`
	Wait  time.Duration `dials:"deep_wait"`
}

const deepLevels = 10

type CfgDoc struct {
	Deep DL1 `dials:"deep"`
	DocEmb
	Name     string                   `dials:"name"`
	Éclair   string                   `dials:"eclair"`  // exported: the first rune is an upper-case letter, not an ASCII one
	Size     DocSize                  `dials:"size"`    // a defined integer type that unmarshals from text ("64MB")
	Retries  DocCount                 `dials:"retries"` // a plain defined integer type
	Count    int                      `dials:"count"`
	Ratio    float64                  `dials:"ratio"`
	On       bool                     `dials:"on"`
	Wait     time.Duration            `dials:"wait"`
	When     time.Time                `dials:"when"`
	Tags     []string                 `dials:"tags"`
	Nums     []int                    `dials:"nums"`
	Limits   map[string]int           `dials:"limits"`
	Set      map[string]struct{}      `dials:"set"`
	Eps      map[DocIn]struct{}       `dials:"eps"` // a set of structs: a list of sections in the document
	In       DocIn                    `dials:"in"`
	PIn      *DocIn                   `dials:"p_in"`
	IP       net.IP                   `dials:"ip"`
	Peers    []DocPeer                `dials:"peers"`
	Waits    []time.Duration          `dials:"waits"`
	Whens    []time.Time              `dials:"whens"`   // text-unmarshaling structs inside a slice
	PWaits   *[]time.Duration         `dials:"p_waits"` // a user-declared pointer to a list of durations
	Timeouts map[string]time.Duration `dials:"timeouts"`
	// a format-specific tag takes precedence over the dials tag
	Alt string `dials:"alt_dials" json:"alt_fmt" yaml:"alt_fmt" toml:"alt_fmt"`
}

// DocVal: which leaves a document sets, and to what.
type DocVal struct {
	Name       *string          `json:"name,omitempty"`
	Eclair     *string          `json:"eclair,omitempty"`
	SizeMB     *int             `json:"size_mb,omitempty"`
	Retries    *int             `json:"retries,omitempty"`
	Count      *int             `json:"count,omitempty"`
	Ratio      *float64         `json:"ratio,omitempty"`
	On         *bool            `json:"on,omitempty"`
	WaitNS     *int64           `json:"wait_ns,omitempty"`
	WaitAsInt  bool             `json:"wait_as_int,omitempty"` // JSON and Cue also accept integer nanoseconds
	WaitEsc    bool             `json:"wait_esc,omitempty"`    // JSON: the duration string is written with \\u escapes (an ASCII-only writer)
	When       *string          `json:"when,omitempty"`
	Tags       []string         `json:"tags,omitempty"`
	Nums       []int            `json:"nums,omitempty"`
	Limits     map[string]int   `json:"limits,omitempty"`
	Set        []string         `json:"set,omitempty"`
	Eps        []int            `json:"eps,omitempty"` // the struct-keyed set: element n is {host_name: "ep<n>", portNum: n}
	InHost     *string          `json:"in_host,omitempty"`
	InPort     *int             `json:"in_port,omitempty"`
	PInHost    *string          `json:"p_in_host,omitempty"`
	PInPort    *int             `json:"p_in_port,omitempty"`
	PInEmpty   bool             `json:"p_in_empty,omitempty"` // the p_in section is present but sets nothing: a pointer to the zero struct, not nil
	IP         *string          `json:"ip,omitempty"`
	Peers      []PeerVal        `json:"peers,omitempty"`
	Alt        *string          `json:"alt,omitempty"`
	WaitsNS    []int64          `json:"waits_ns"`             // nil: key absent; empty: key present with an empty list
	TimeoutNS  map[string]int64 `json:"timeouts_ns"`          // likewise
	EmptyTags  bool             `json:"empty_tags,omitempty"` // tags: [] (present, empty)
	EmptyNums  bool             `json:"empty_nums,omitempty"`
	BigTags    int              `json:"big_tags,omitempty"` // the tags list has this many generated elements (a large document; the elements are not stored in the scenario)
	EmbN       *int             `json:"emb_n,omitempty"`
	EmbS       *string          `json:"emb_s,omitempty"`
	EmbInHost  *string          `json:"emb_in_host,omitempty"`
	EmbInPort  *int             `json:"emb_in_port,omitempty"`
	Whens      []string         `json:"whens,omitempty"`
	PWaitsNS   []int64          `json:"p_waits_ns,omitempty"`
	DeepLabel  *string          `json:"deep_label,omitempty"`
	DeepWaitNS *int64           `json:"deep_wait_ns,omitempty"`
}

type PeerVal struct {
	Addr           *string `json:"addr,omitempty"`
	Weight         *int    `json:"weight,omitempty"`
	TimeoutNS      *int64  `json:"timeout_ns,omitempty"`
	Since          *string `json:"since,omitempty"`
	Omega          *int    `json:"omega,omitempty"`
	RetryCount     *int    `json:"retry_count,omitempty"`
	RetryBackoffNS *int64  `json:"retry_backoff_ns,omitempty"`
}

type StreamSpec struct {
	Val    DocVal `json:"val"`
	Def    DocVal `json:"defaults"`
	Fault  string `json:"fault"` // none | chunk | err-at-k | truncate | corrupt-known | byte-flip
	K      int    `json:"k"`     // position, in 1/1000 of the document length
	Class  string `json:"class,omitempty"`
	Format string `json:"format"` // the format the fault is applied to
}

// yaml-flat: the YAML decoder with FlattenAnonymous set
var streamFormats = []string{"json", "yaml", "toml", "cue", "yaml-flat"}

func baseFormat(f string) string { return strings.TrimSuffix(f, "-flat") }

func (g *gen) docVal(p int) DocVal {
	n := int(g.id())
	var v DocVal
	if g.pct(p) {
		v.Name = sp(fmt.Sprintf("name-%d", n))
	}
	if g.pct(p / 2) {
		v.Eclair = sp(fmt.Sprintf("eclair%d", n))
	}
	if g.pct(p / 2) {
		v.SizeMB = ip(1 + n%512)
	}
	if g.pct(p / 2) {
		v.Retries = ip(n % 9)
	}
	if g.pct(p) {
		v.Count = ip(n*7 + 1)
	}
	if g.pct(p) {
		v.Ratio = f64p(float64(n) + 0.25)
	}
	if g.pct(p) {
		v.On = bp(n%2 == 0)
	}
	if g.pct(p) {
		d := int64(n) * int64(time.Second)
		switch g.r.IntN(4) {
		case 0:
			d = -d // negative
		case 1:
			d += 250 * int64(time.Millisecond) // fractional seconds when written as a string
		case 2:
			// beyond 2^53 ns (about 104 days): exact as an int64, not as a float64
			switch g.r.IntN(6) {
			case 0:
				d = 1<<63 - 1
			case 1:
				d = -(1<<63 - 1)
			default:
				d = 1<<53 + 1 + 2*int64(n) + int64(g.r.IntN(1<<20))*1e9
			}
		}
		v.WaitNS = i64p(d)
		v.WaitAsInt = g.pct(40)
		v.WaitEsc = !v.WaitAsInt && g.pct(30)
	}
	if g.pct(p) {
		v.When = sp(fmt.Sprintf("2021-03-%02dT04:05:06Z", 1+n%27))
	}
	if g.pct(p) {
		for i, k := 0, g.in(1, 3); i < k; i++ {
			v.Tags = append(v.Tags, fmt.Sprintf("t%d-%d", n, i))
		}
	}
	if g.pct(p) {
		for i, k := 0, g.in(1, 3); i < k; i++ {
			v.Nums = append(v.Nums, n*10+i)
		}
	}
	if g.pct(p) {
		v.Limits = map[string]int{}
		for i, k := 0, g.in(1, 3); i < k; i++ {
			v.Limits[fmt.Sprintf("k%d", i)] = n*100 + i
		}
	}
	if g.pct(p) {
		for i, k := 0, g.in(1, 3); i < k; i++ {
			v.Set = append(v.Set, fmt.Sprintf("s%d-%d", n, i))
		}
	}
	if g.pct(p / 2) {
		for i, k := 0, g.in(1, 3); i < k; i++ {
			v.Eps = append(v.Eps, n*10+i)
		}
	}
	if g.pct(p) {
		v.InHost = sp(fmt.Sprintf("host%d", n))
	}
	if g.pct(p) {
		v.InPort = ip(1000 + n)
	}
	if g.pct(p / 2) {
		v.PInHost = sp(fmt.Sprintf("phost%d", n))
	}
	if g.pct(p / 2) {
		v.PInPort = ip(2000 + n)
	}
	if v.PInHost == nil && v.PInPort == nil && g.pct(p/3) {
		v.PInEmpty = true
	}
	if g.pct(p) {
		v.IP = sp(fmt.Sprintf("10.1.%d.%d", n%250, (n*7)%250))
	}
	if g.pct(p) {
		v.Alt = sp(fmt.Sprintf("alt%d", n))
	}
	if g.pct(p) {
		v.WaitsNS = []int64{}
		for i, k := 0, g.in(0, 3); i < k; i++ {
			v.WaitsNS = append(v.WaitsNS, int64(n+i)*int64(time.Second))
		}
	}
	if g.pct(p) {
		v.TimeoutNS = map[string]int64{}
		for i, k := 0, g.in(0, 2); i < k; i++ {
			v.TimeoutNS[fmt.Sprintf("t%d", i)] = int64(n+i) * int64(time.Millisecond) * 100
		}
	}
	if g.pct(p / 2) {
		for i, k := 0, g.in(1, 2); i < k; i++ {
			v.Whens = append(v.Whens, fmt.Sprintf("2019-11-%02dT10:11:12Z", 1+(n+i)%27))
		}
	}
	if g.pct(p / 3) {
		for i, k := 0, g.in(1, 2); i < k; i++ {
			v.PWaitsNS = append(v.PWaitsNS, int64(n+i)*int64(time.Second)+int64(i)*int64(time.Millisecond))
		}
	}
	if g.pct(p / 3) {
		v.DeepLabel = sp(fmt.Sprintf("deep%d", n))
	}
	if g.pct(p / 3) {
		v.DeepWaitNS = i64p(int64(n) * 250 * int64(time.Millisecond))
	}
	if g.pct(p / 2) {
		v.EmbN = ip(n*5 + 2)
	}
	if g.pct(p / 2) {
		v.EmbS = sp(fmt.Sprintf("emb%d", n))
	}
	if g.pct(p / 3) {
		v.EmbInHost = sp(fmt.Sprintf("embhost%d", n))
	}
	if g.pct(p / 3) {
		v.EmbInPort = ip(7000 + n)
	}
	if v.Tags == nil && g.pct(10) {
		v.Tags, v.EmptyTags = []string{}, true
	}
	if v.Nums == nil && g.pct(10) {
		v.Nums, v.EmptyNums = []int{}, true
	}
	if g.pct(p) {
		for i, k := 0, g.in(1, 3); i < k; i++ {
			var pv PeerVal
			if g.pct(70) {
				pv.Addr = sp(fmt.Sprintf("peer%d-%d", n, i))
			}
			if g.pct(70) {
				pv.Weight = ip(n*3 + i)
			}
			if g.pct(50) {
				pv.TimeoutNS = i64p(int64(n+i) * int64(time.Millisecond) * 250)
			}
			if g.pct(40) {
				pv.Since = sp(fmt.Sprintf("2020-01-%02dT02:03:04Z", 1+(n+i)%27))
			}
			if g.pct(30) {
				pv.Omega = ip(n*11 + i)
			}
			if g.pct(45) {
				if g.pct(75) {
					pv.RetryCount = ip(n*5 + i + 1)
				}
				if pv.RetryCount == nil || g.pct(60) {
					pv.RetryBackoffNS = i64p(int64(n*7+i+1) * int64(time.Millisecond) * 10)
				}
			}
			if pv.Addr == nil && pv.Weight == nil && pv.TimeoutNS == nil && pv.Since == nil && pv.Omega == nil {
				pv.Weight = ip(i)
			}
			v.Peers = append(v.Peers, pv)
		}
	}
	return v
}

func genStream(seed uint64, faulty bool) *Scenario {
	g := &gen{r: rand.New(rand.NewPCG(seed, 0x5eed5eed))}
	sc := &Scenario{Prop: "C13", Seed: seed, Faulty: faulty}
	st := &StreamSpec{Fault: "none", Format: streamFormats[g.r.IntN(len(streamFormats))]}
	st.Def = g.docVal(40)
	st.Def.WaitAsInt, st.Def.WaitEsc = false, false
	st.Val = g.docVal(55)
	if g.r.IntN(200) == 0 {
		// a large document: 8 KiB ... 3 MiB, log-uniform (24 bytes per element)
		n := 300.0
		for i, k := 0, g.in(0, 85); i < k; i++ {
			n *= 1.074
		}
		st.Val.BigTags, st.Val.EmptyTags = int(n), false
	}
	if g.pct(10) {
		// several documents decoded at the same time (streamconc.go)
		st.Fault = "concurrent"
		sc.Stream = st
		genStreamConc(g, sc)
		return sc
	}
	if faulty {
		st.Fault = []string{"chunk", "chunk", "err-at-k", "err-at-k", "truncate", "corrupt-known", "corrupt-known", "byte-flip"}[g.r.IntN(8)]
		switch g.r.IntN(5) {
		case 0:
			st.K = 0
		case 1:
			st.K = 1000
		default:
			st.K = g.in(0, 1000)
		}
		st.Class = []string{"unclosed", "ill-typed", "duplicate-key"}[g.r.IntN(3)]
	}
	sc.Stream = st
	return sc
}

func (v *DocVal) expected(def *DocVal) *CfgDoc {
	c := &CfgDoc{}
	for _, l := range []*DocVal{def, v} {
		if l == nil {
			continue
		}
		if l.Name != nil {
			c.Name = *l.Name
		}
		if l.Eclair != nil {
			c.Éclair = *l.Eclair
		}
		if l.SizeMB != nil {
			c.Size = DocSize(*l.SizeMB) << 20
		}
		if l.Retries != nil {
			c.Retries = DocCount(*l.Retries)
		}
		if l.Count != nil {
			c.Count = *l.Count
		}
		if l.Ratio != nil {
			c.Ratio = *l.Ratio
		}
		if l.On != nil {
			c.On = *l.On
		}
		if l.WaitNS != nil {
			c.Wait = time.Duration(*l.WaitNS)
		}
		if l.When != nil {
			t, _ := time.Parse(time.RFC3339, *l.When)
			c.When = t
		}
		if l.Tags != nil {
			c.Tags = append([]string{}, l.Tags...)
		}
		if l.Nums != nil {
			c.Nums = append([]int{}, l.Nums...)
		}
		if l.Limits != nil {
			c.Limits = map[string]int{}
			for k, x := range l.Limits {
				c.Limits[k] = x
			}
		}
		if l.Set != nil {
			c.Set = map[string]struct{}{}
			for _, k := range l.Set {
				c.Set[k] = struct{}{}
			}
		}
		if l.Eps != nil {
			c.Eps = map[DocIn]struct{}{}
			for _, n := range l.Eps {
				c.Eps[DocIn{Host: fmt.Sprintf("ep%d", n), Port: n}] = struct{}{}
			}
		}
		if l.InHost != nil {
			c.In.Host = *l.InHost
		}
		if l.InPort != nil {
			c.In.Port = *l.InPort
		}
		if l.PInHost != nil || l.PInPort != nil || l.PInEmpty {
			if c.PIn == nil {
				c.PIn = &DocIn{}
			}
			if l.PInHost != nil {
				c.PIn.Host = *l.PInHost
			}
			if l.PInPort != nil {
				c.PIn.Port = *l.PInPort
			}
		}
		if l.IP != nil {
			c.IP = net.ParseIP(*l.IP)
		}
		if l.Alt != nil {
			c.Alt = *l.Alt
		}
		if l.Whens != nil {
			c.Whens = nil
			for _, w := range l.Whens {
				t, _ := time.Parse(time.RFC3339, w)
				c.Whens = append(c.Whens, t)
			}
		}
		if l.PWaitsNS != nil {
			w := []time.Duration{}
			for _, x := range l.PWaitsNS {
				w = append(w, time.Duration(x))
			}
			c.PWaits = &w
		}
		if l.DeepLabel != nil {
			c.Deep.Next.Next.Next.Next.Next.Next.Next.Next.Next.Label = *l.DeepLabel
		}
		if l.DeepWaitNS != nil {
			c.Deep.Next.Next.Next.Next.Next.Next.Next.Next.Next.Wait = time.Duration(*l.DeepWaitNS)
		}
		if l.EmbN != nil {
			c.EmbN = *l.EmbN
		}
		if l.EmbS != nil {
			c.EmbS = *l.EmbS
		}
		if l.EmbInHost != nil {
			c.EmbIn.Host = *l.EmbInHost
		}
		if l.EmbInPort != nil {
			c.EmbIn.Port = *l.EmbInPort
		}
		if l.WaitsNS != nil {
			c.Waits = []time.Duration{}
			for _, x := range l.WaitsNS {
				c.Waits = append(c.Waits, time.Duration(x))
			}
		}
		if l.TimeoutNS != nil {
			c.Timeouts = map[string]time.Duration{}
			for k, x := range l.TimeoutNS {
				c.Timeouts[k] = time.Duration(x)
			}
		}
		if l.Peers != nil {
			c.Peers = nil
			for _, pv := range l.Peers {
				var p DocPeer
				if pv.Addr != nil {
					p.Addr = *pv.Addr
				}
				if pv.Weight != nil {
					p.Weight = *pv.Weight
				}
				if pv.TimeoutNS != nil {
					p.Timeout = time.Duration(*pv.TimeoutNS)
				}
				if pv.Since != nil {
					p.Since, _ = time.Parse(time.RFC3339, *pv.Since)
				}
				if pv.Omega != nil {
					p.Ωmega = *pv.Omega
				}
				if pv.RetryCount != nil || pv.RetryBackoffNS != nil {
					p.Retry = &DocRetry{}
					if pv.RetryCount != nil {
						p.Retry.Count = *pv.RetryCount
					}
					if pv.RetryBackoffNS != nil {
						p.Retry.Backoff = time.Duration(*pv.RetryBackoffNS)
					}
				}
				c.Peers = append(c.Peers, p)
			}
		}
	}
	return c
}

func quoteList(l []string) string {
	q := make([]string, len(l))
	for i, s := range l {
		q[i] = strconv.Quote(s)
	}
	return "[" + strings.Join(q, ", ") + "]"
}

func intList(l []int) string {
	q := make([]string, len(l))
	for i, n := range l {
		q[i] = strconv.Itoa(n)
	}
	return "[" + strings.Join(q, ", ") + "]"
}

type kv struct{ k, v string }

// fields returns the document's top-level scalar/list entries, the limits map
// and the two nested tables, as rendered value strings for the given format.
func (v *DocVal) fields(format string) (top []kv, limits []kv, in []kv, pin []kv) {
	str := func(s string) string { return strconv.Quote(s) }
	if v.Name != nil {
		top = append(top, kv{"name", str(*v.Name)})
	}
	if v.Eclair != nil {
		top = append(top, kv{"eclair", str(*v.Eclair)})
	}
	if v.SizeMB != nil {
		top = append(top, kv{"size", str(fmt.Sprintf("%dMB", *v.SizeMB))})
	}
	if v.Retries != nil {
		top = append(top, kv{"retries", strconv.Itoa(*v.Retries)})
	}
	if v.Count != nil {
		top = append(top, kv{"count", strconv.Itoa(*v.Count)})
	}
	if v.Ratio != nil {
		top = append(top, kv{"ratio", strconv.FormatFloat(*v.Ratio, 'f', -1, 64)})
	}
	if v.On != nil {
		top = append(top, kv{"on", strconv.FormatBool(*v.On)})
	}
	if v.WaitNS != nil {
		if v.WaitAsInt && (format == "json" || format == "cue") {
			top = append(top, kv{"wait", strconv.FormatInt(*v.WaitNS, 10)})
		} else if v.WaitEsc && format == "json" {
			// the same string, every unit letter as a \uXXXX escape
			var b strings.Builder
			b.WriteByte('"')
			for _, c := range time.Duration(*v.WaitNS).String() {
				if c >= 'a' && c <= 'z' || c > 127 {
					fmt.Fprintf(&b, "\\u%04x", c)
				} else {
					b.WriteRune(c)
				}
			}
			b.WriteByte('"')
			top = append(top, kv{"wait", b.String()})
		} else {
			top = append(top, kv{"wait", str(time.Duration(*v.WaitNS).String())})
		}
	}
	if v.When != nil {
		if format == "toml" || format == "yaml" {
			top = append(top, kv{"when", *v.When})
		} else {
			top = append(top, kv{"when", str(*v.When)})
		}
	}
	if v.Tags != nil {
		top = append(top, kv{"tags", quoteList(v.Tags)})
	}
	if v.Nums != nil {
		top = append(top, kv{"nums", intList(v.Nums)})
	}
	if v.Set != nil {
		top = append(top, kv{"set", quoteList(v.Set)})
	}
	if v.Eps != nil {
		items := make([]string, len(v.Eps))
		for i, n := range v.Eps {
			switch format {
			case "json":
				items[i] = fmt.Sprintf(`{"host_name": "ep%d", "portNum": %d}`, n, n)
			case "toml":
				items[i] = fmt.Sprintf(`{host_name = "ep%d", portNum = %d}`, n, n)
			default:
				items[i] = fmt.Sprintf(`{host_name: "ep%d", portNum: %d}`, n, n)
			}
		}
		top = append(top, kv{"eps", "[" + strings.Join(items, ", ") + "]"})
	}
	if v.IP != nil {
		top = append(top, kv{"ip", str(*v.IP)})
	}
	if v.Alt != nil {
		top = append(top, kv{"alt_fmt", str(*v.Alt)})
	}
	if v.Whens != nil {
		if format == "toml" || format == "yaml" {
			top = append(top, kv{"whens", "[" + strings.Join(v.Whens, ", ") + "]"})
		} else {
			top = append(top, kv{"whens", quoteList(v.Whens)})
		}
	}
	if v.PWaitsNS != nil {
		q := make([]string, len(v.PWaitsNS))
		for i, x := range v.PWaitsNS {
			q[i] = str(time.Duration(x).String())
		}
		top = append(top, kv{"p_waits", "[" + strings.Join(q, ", ") + "]"})
	}
	if v.WaitsNS != nil {
		q := make([]string, len(v.WaitsNS))
		for i, x := range v.WaitsNS {
			q[i] = str(time.Duration(x).String())
		}
		top = append(top, kv{"waits", "[" + strings.Join(q, ", ") + "]"})
	}
	if v.Limits != nil {
		keys := make([]string, 0, len(v.Limits))
		for k := range v.Limits {
			keys = append(keys, k)
		}
		sort.Strings(keys)
		for _, k := range keys {
			limits = append(limits, kv{k, strconv.Itoa(v.Limits[k])})
		}
	}
	if v.InHost != nil {
		in = append(in, kv{"host_name", str(*v.InHost)})
	}
	if v.InPort != nil {
		in = append(in, kv{"portNum", strconv.Itoa(*v.InPort)})
	}
	if v.PInHost != nil {
		pin = append(pin, kv{"host_name", str(*v.PInHost)})
	}
	if v.PInPort != nil {
		pin = append(pin, kv{"portNum", strconv.Itoa(*v.PInPort)})
	}
	return
}

func (v *DocVal) peerFields(format string) [][]kv {
	var out [][]kv
	for _, pv := range v.Peers {
		var l []kv
		if pv.Addr != nil {
			l = append(l, kv{"peer_addr", strconv.Quote(*pv.Addr)})
		}
		if pv.Weight != nil {
			l = append(l, kv{"weightValue", strconv.Itoa(*pv.Weight)})
		}
		if pv.TimeoutNS != nil {
			l = append(l, kv{"dial_timeout", strconv.Quote(time.Duration(*pv.TimeoutNS).String())})
		}
		if pv.Since != nil {
			if format == "toml" || format == "yaml" {
				l = append(l, kv{"since", *pv.Since})
			} else {
				l = append(l, kv{"since", strconv.Quote(*pv.Since)})
			}
		}
		if pv.Omega != nil {
			l = append(l, kv{"omega", strconv.Itoa(*pv.Omega)})
		}
		if pv.RetryCount != nil || pv.RetryBackoffNS != nil {
			var parts []string
			q, eq := func(k string) string { return k }, ": "
			switch format {
			case "json":
				q = strconv.Quote
			case "toml":
				eq = " = "
			}
			if pv.RetryCount != nil {
				parts = append(parts, q("count")+eq+strconv.Itoa(*pv.RetryCount))
			}
			if pv.RetryBackoffNS != nil {
				parts = append(parts, q("backoff")+eq+strconv.Quote(time.Duration(*pv.RetryBackoffNS).String()))
			}
			l = append(l, kv{"retry", "{" + strings.Join(parts, ", ") + "}"})
		}
		out = append(out, l)
	}
	return out
}

func (v *DocVal) timeoutFields() []kv {
	keys := make([]string, 0, len(v.TimeoutNS))
	for k := range v.TimeoutNS {
		keys = append(keys, k)
	}
	sort.Strings(keys)
	var out []kv
	for _, k := range keys {
		out = append(out, kv{k, strconv.Quote(time.Duration(v.TimeoutNS[k]).String())})
	}
	return out
}

func (v *DocVal) renderDoc(format string) string {
	var emb []kv
	if v.EmbN != nil {
		emb = append(emb, kv{"emb_n", strconv.Itoa(*v.EmbN)})
	}
	if v.EmbS != nil {
		emb = append(emb, kv{"emb_s", strconv.Quote(*v.EmbS)})
	}
	if v.EmbInHost != nil || v.EmbInPort != nil {
		q, eq := func(k string) string { return k }, ": "
		switch baseFormat(format) {
		case "json":
			q = strconv.Quote
		case "toml":
			eq = " = "
		}
		var parts []string
		if v.EmbInHost != nil {
			parts = append(parts, q("host_name")+eq+strconv.Quote(*v.EmbInHost))
		}
		if v.EmbInPort != nil {
			parts = append(parts, q("portNum")+eq+strconv.Itoa(*v.EmbInPort))
		}
		emb = append(emb, kv{"emb_in", "{" + strings.Join(parts, ", ") + "}"})
	}
	var deep []kv
	if v.DeepLabel != nil {
		deep = append(deep, kv{"leaf_label", strconv.Quote(*v.DeepLabel)})
	}
	if v.DeepWaitNS != nil {
		deep = append(deep, kv{"deep_wait", strconv.Quote(time.Duration(*v.DeepWaitNS).String())})
	}
	embFlat := format == "json" || format == "cue" || format == "yaml-flat"
	format = baseFormat(format)
	top, limits, in, pin := v.fields(format)
	if embFlat {
		top = append(top, emb...)
		emb = nil
	}
	peers := v.peerFields(format)
	timeouts := v.timeoutFields()
	var b strings.Builder
	obj := func(l []kv, sep, open, close, eq string, quoteKeys bool) string {
		parts := make([]string, len(l))
		for i, e := range l {
			k := e.k
			if quoteKeys {
				k = strconv.Quote(k)
			}
			parts[i] = k + eq + e.v
		}
		return open + strings.Join(parts, sep) + close
	}
	switch format {
	case "json":
		all := append([]kv(nil), top...)
		if v.Limits != nil {
			all = append(all, kv{"limits", obj(limits, ", ", "{", "}", ": ", true)})
		}
		if v.TimeoutNS != nil {
			all = append(all, kv{"timeouts", obj(timeouts, ", ", "{", "}", ": ", true)})
		}
		if len(in) > 0 {
			all = append(all, kv{"in", obj(in, ", ", "{", "}", ": ", true)})
		}
		if len(pin) > 0 || v.PInEmpty {
			all = append(all, kv{"p_in", obj(pin, ", ", "{", "}", ": ", true)})
		}
		if v.Peers != nil {
			items := make([]string, len(peers))
			for i, p := range peers {
				items[i] = obj(p, ", ", "{", "}", ": ", true)
			}
			all = append(all, kv{"peers", "[" + strings.Join(items, ", ") + "]"})
		}
		if len(deep) > 0 {
			d := obj(deep, ", ", "{", "}", ": ", true)
			for i := 1; i < deepLevels; i++ {
				d = `{"next": ` + d + `}`
			}
			all = append(all, kv{"deep", d})
		}
		b.WriteString(obj(all, ",\n ", "{\n ", "\n}\n", ": ", true))
	case "yaml", "cue":
		for _, e := range top {
			fmt.Fprintf(&b, "%s: %s\n", e.k, e.v)
		}
		if v.Limits != nil {
			fmt.Fprintf(&b, "limits: %s\n", obj(limits, ", ", "{", "}", ": ", false))
		}
		if v.TimeoutNS != nil {
			fmt.Fprintf(&b, "timeouts: %s\n", obj(timeouts, ", ", "{", "}", ": ", false))
		}
		if len(in) > 0 {
			fmt.Fprintf(&b, "in: %s\n", obj(in, ", ", "{", "}", ": ", false))
		}
		if len(pin) > 0 || v.PInEmpty {
			fmt.Fprintf(&b, "p_in: %s\n", obj(pin, ", ", "{", "}", ": ", false))
		}
		if v.Peers != nil {
			items := make([]string, len(peers))
			for i, p := range peers {
				items[i] = obj(p, ", ", "{", "}", ": ", false)
			}
			fmt.Fprintf(&b, "peers: [%s]\n", strings.Join(items, ", "))
		}
		if len(emb) > 0 {
			fmt.Fprintf(&b, "docemb: %s\n", obj(emb, ", ", "{", "}", ": ", false))
		}
		if len(deep) > 0 {
			d := obj(deep, ", ", "{", "}", ": ", false)
			for i := 1; i < deepLevels; i++ {
				d = "{next: " + d + "}"
			}
			fmt.Fprintf(&b, "deep: %s\n", d)
		}
	case "toml":
		for _, e := range top {
			fmt.Fprintf(&b, "%s = %s\n", e.k, e.v)
		}
		if v.Limits != nil {
			b.WriteString("[limits]\n")
			for _, e := range limits {
				fmt.Fprintf(&b, "%s = %s\n", e.k, e.v)
			}
		}
		if v.TimeoutNS != nil {
			b.WriteString("[timeouts]\n")
			for _, e := range timeouts {
				fmt.Fprintf(&b, "%s = %s\n", e.k, e.v)
			}
		}
		if len(in) > 0 {
			b.WriteString("[in]\n")
			for _, e := range in {
				fmt.Fprintf(&b, "%s = %s\n", e.k, e.v)
			}
		}
		if len(pin) > 0 || v.PInEmpty {
			b.WriteString("[p_in]\n")
			for _, e := range pin {
				fmt.Fprintf(&b, "%s = %s\n", e.k, e.v)
			}
		}
		if len(deep) > 0 {
			b.WriteString("[deep" + strings.Repeat(".next", deepLevels-1) + "]\n")
			for _, e := range deep {
				fmt.Fprintf(&b, "%s = %s\n", e.k, e.v)
			}
		}
		if len(emb) > 0 {
			b.WriteString("[DocEmb]\n")
			for _, e := range emb {
				fmt.Fprintf(&b, "%s = %s\n", e.k, e.v)
			}
		}
		for _, p := range peers {
			b.WriteString("[[peers]]\n")
			for _, e := range p {
				fmt.Fprintf(&b, "%s = %s\n", e.k, e.v)
			}
		}
	}
	return b.String()
}

// rawCapture records what the format's own decoder returned, underneath the
// set-to-slice wrapper (which maps every inner error to an invalid value).
type rawCapture struct {
	inner dials.Decoder
	val   reflect.Value
	err   error
}

func (c *rawCapture) Decode(r io.Reader, t *dials.Type) (reflect.Value, error) {
	c.val, c.err = c.inner.Decode(r, t)
	return c.val, c.err
}

var lastRaw *rawCapture

func decoderFor(format string) dials.Decoder {
	var d dials.Decoder
	switch format {
	case "json":
		d = &jsondec2.Decoder{}
	case "yaml":
		d = &yamldec.Decoder{}
	case "yaml-flat":
		d = &yamldec.Decoder{FlattenAnonymous: true}
	case "toml":
		d = &tomldec.Decoder{}
	case "cue":
		d = &cuedec.Decoder{}
	}
	lastRaw = &rawCapture{inner: d}
	return sourcewrap.NewTransformingDecoder(lastRaw, &transform.SetSliceMangler{})
}

var errInjectedRead = errors.New("harness: injected read error")

// simReader delivers data the way the run's fault says.
type simReader struct {
	data    []byte
	pos     int
	rnd     *rand.Rand
	chunked bool
	failAt  int // -1: never
	reads   int
}

func (r *simReader) Read(p []byte) (int, error) {
	r.reads++
	if r.failAt >= 0 && r.pos >= r.failAt {
		return 0, errInjectedRead
	}
	if len(p) == 0 {
		return 0, nil
	}
	rem := len(r.data) - r.pos
	if rem == 0 {
		if r.failAt >= 0 {
			return 0, errInjectedRead
		}
		return 0, io.EOF
	}
	n := rem
	if n > len(p) {
		n = len(p)
	}
	if r.chunked {
		if r.rnd.IntN(5) == 0 {
			return 0, nil // a zero-length read, which io.Reader allows
		}
		n = 1 + r.rnd.IntN(n)
	}
	if r.failAt >= 0 && r.pos+n > r.failAt {
		n = r.failAt - r.pos
	}
	copy(p, r.data[r.pos:r.pos+n])
	r.pos += n
	if r.failAt >= 0 && r.pos >= r.failAt && r.rnd.IntN(2) == 0 {
		return n, errInjectedRead // the error arrives together with the last bytes
	}
	if r.failAt < 0 && r.chunked && r.pos == len(r.data) && r.rnd.IntN(2) == 0 {
		return n, io.EOF // EOF together with the last bytes
	}
	return n, nil
}

type captureSource struct {
	dec dials.Decoder
	rd  io.Reader
	val reflect.Value
	err error
	pan any
}

func (c *captureSource) Value(_ context.Context, t *dials.Type) (reflect.Value, error) {
	func() {
		defer func() {
			if x := recover(); x != nil {
				c.pan = x
				c.err = fmt.Errorf("panic: %v", x)
			}
		}()
		c.val, c.err = c.dec.Decode(c.rd, t)
	}()
	return c.val, c.err
}

type streamRun struct {
	sc     *Scenario
	viol   []Violation
	probes map[string]int
}

func (r *streamRun) fail(oracle, format string, a ...any) {
	if len(r.viol) < 20 {
		msg := fmt.Sprintf(format, a...)
		if len(msg) > 12000 {
			msg = msg[:6000] + fmt.Sprintf("\n... (%d bytes left out) ...\n", len(msg)-9000) + msg[len(msg)-3000:]
		}
		r.viol = append(r.viol, Violation{Oracle: oracle, Msg: msg})
	}
}

func defaultsDoc(d *DocVal) *CfgDoc { return d.expected(nil) }

// decodeVia stacks one document, delivered by rd, over the defaults.
func (r *streamRun) decodeVia(format string, rd io.Reader) (*CfgDoc, *captureSource, error) {
	src := &captureSource{dec: decoderFor(format), rd: rd}
	d, err := dials.Config(context.Background(), defaultsDoc(&r.sc.Stream.Def), src)
	if raw := lastRaw; raw != nil && raw.err != nil && raw.val.IsValid() {
		r.fail("C13.partial-value", "%s: the decoder returned an error (%v) together with a value %v", format, raw.err, raw.val)
	}
	if err != nil {
		return nil, src, err
	}
	return d.View(), src, nil
}

func runStream(sc *Scenario, res *Result, keepLog bool) {
	if sc.Stream.Fault == "concurrent" {
		runStreamConc(sc, res, keepLog)
		return
	}
	stc := *sc.Stream // (a copy: what is filled in below does not belong in a replay file)
	st := &stc
	if n := st.Val.BigTags; n > 0 {
		st.Val.Tags = make([]string, n)
		for i := range st.Val.Tags {
			st.Val.Tags[i] = fmt.Sprintf("host-%06d.example", i)
		}
	}
	// a replay file drops empty lists (omitempty): the flags bring them back
	for _, v := range []*DocVal{&st.Val, &st.Def} {
		if v.EmptyTags && v.Tags == nil {
			v.Tags = []string{}
		}
		if v.EmptyNums && v.Nums == nil {
			v.Nums = []int{}
		}
	}
	r := &streamRun{sc: sc, probes: map[string]int{}}
	rnd := rand.New(rand.NewPCG(sc.Seed, 0xfa17))
	want := st.Val.expected(&st.Def)
	wantFP := render(want)
	// fault-free: all four decoders agree with each other and with the generating value
	clean := map[string]string{}
	// (in an order drawn from the run seed: no decoder's result may depend on
	// which decoders, with which options, ran before it in the process)
	order := append([]string(nil), streamFormats...)
	rand.New(rand.NewPCG(sc.Seed, 0x0bde)).Shuffle(len(order), func(a, b int) { order[a], order[b] = order[b], order[a] })
	for _, f := range order {
		doc := st.Val.renderDoc(f)
		clean[f] = doc
		if st.Val.BigTags > 0 {
			r.probes["large-document"]++
			if len(doc) > 1<<20 {
				r.probes["document-over-1MiB"]++
			}
			if f == "cue" && len(doc) > 300<<10 {
				// the Cue compiler needs more than ten seconds per MiB
				r.probes["cue-skipped-for-a-large-document"]++
				continue
			}
		}
		got, src, err := r.decodeVia(f, strings.NewReader(doc))
		if src.pan != nil {
			r.fail("crash", "%s decoder panicked on a well-formed document: %v\n%s", f, src.pan, doc)
			continue
		}
		if err != nil {
			r.fail("C13.agreement", "%s decoder rejected a well-formed document: %v\n%s", f, err, doc)
			continue
		}
		if fp := render(got); fp != wantFP {
			r.fail("C13.agreement", "%s decoder disagrees with the data the document expresses\n document:\n%s\n got:  %s\n want: %s", f, doc, fp, wantFP)
		}
		r.checkUnset(f, src.val, &st.Val, doc)
	}
	h := hashStr(wantFP)
	// the fault
	if st.Fault != "none" {
		f := st.Format
		if f == "cue" && st.Val.BigTags > 0 && len(clean[f]) > 300<<10 {
			f = "yaml"
		}
		doc := []byte(clean[f])
		k := st.K * len(doc) / 1000
		switch st.Fault {
		case "chunk":
			got, src, err := r.decodeVia(f, &simReader{data: doc, rnd: rnd, chunked: true, failAt: -1})
			r.probes["chunked-delivery"]++
			if err != nil || src.pan != nil {
				r.fail("C13.delivery", "%s: the same bytes delivered in small, zero-length and EOF-carrying reads were rejected: %v", f, err)
			} else if render(got) != wantFP {
				r.fail("C13.delivery", "%s: the result depends on how the bytes arrive\n got:  %s\n want: %s", f, render(got), wantFP)
			}
			h = mixU(h, uint64(src.rd.(*simReader).reads))
		case "err-at-k":
			rd := &simReader{data: doc, rnd: rnd, chunked: rnd.IntN(2) == 0, failAt: k}
			got, src, err := r.decodeVia(f, rd)
			switch {
			case k == 0:
				r.probes["read-error-at-0"]++
			case k >= len(doc):
				r.probes["read-error-at-len"]++
			default:
				r.probes["read-error-mid-document"]++
			}
			if src.pan != nil {
				r.fail("crash", "%s decoder panicked on a failing reader: %v", f, src.pan)
			} else if err == nil {
				r.fail("C13.read-error", "%s: the reader failed after %d of %d bytes but decoding succeeded with %s", f, k, len(doc), render(got))
			} else {
				if src.val.IsValid() {
					r.fail("C13.partial-value", "%s: the reader failed after %d bytes; Decode returned an error AND a value %v", f, k, src.val)
				}
				if !strings.Contains(err.Error(), errInjectedRead.Error()) {
					r.fail("C13.read-error", "%s: the reader's error was replaced by %v", f, err)
				}
			}
			h = mixU(h, uint64(k))
		case "truncate", "byte-flip":
			mut := append([]byte(nil), doc...)
			if st.Fault == "truncate" {
				mut = mut[:k]
				r.probes["truncated"]++
			} else if len(mut) > 0 {
				i := k % len(mut)
				mut[i] ^= 1 << uint(rnd.IntN(7))
				r.probes["byte-flipped"]++
			}
			got, src, err := r.decodeVia(f, strings.NewReader(string(mut)))
			switch {
			case src.pan != nil:
				r.fail("crash", "%s decoder panicked on a corrupted document: %v\n%q", f, src.pan, mut)
			case err != nil && src.val.IsValid():
				r.fail("C13.partial-value", "%s: Decode returned an error AND a value for %q", f, mut)
			case err == nil && got == nil:
				r.fail("C13.partial-value", "%s: no error and no config for %q", f, mut)
			case err == nil:
				r.probes["corruption-still-decodes"]++
			default:
				r.probes["corruption-rejected"]++
			}
			h = mixU(h, hashStr(string(mut)))
		case "corrupt-known":
			mut, ok := knownCorruption(f, st.Class, &st.Val, string(doc))
			if ok {
				r.probes["known-corruption["+st.Class+"]["+f+"]"]++
				got, src, err := r.decodeVia(f, strings.NewReader(mut))
				switch {
				case src.pan != nil:
					r.fail("crash", "%s decoder panicked on a corrupted document: %v\n%s", f, src.pan, mut)
				case err == nil:
					r.fail("C13.malformed-accepted", "%s: a %s document was accepted\n%s\n result: %s", f, st.Class, mut, render(got))
				case src.val.IsValid():
					r.fail("C13.partial-value", "%s: Decode returned an error AND a value for a %s document", f, st.Class)
				}
				h = mixU(h, hashStr(mut))
			}
		}
	}
	res.Viol = r.viol
	res.Hash = mixU(h, hashStr(st.Fault+st.Format))
	res.Steps = 1
	res.Reason = "decoded"
	r.probes["documents-decoded"] += len(streamFormats)
	for k, v := range r.probes {
		res.Probes[k] += v
	}
	if st.Fault != "none" {
		res.Faults[st.Fault]++
	}
	res.States = map[uint64]struct{}{res.Hash: {}}
}

func mixU(h, x uint64) uint64 {
	h ^= x + 0x9e3779b97f4a7c15 + (h << 6) + (h >> 2)
	return h
}

// knownCorruption applies a single-token corruption whose verdict is known.
func knownCorruption(format, class string, v *DocVal, doc string) (string, bool) {
	format = baseFormat(format)
	switch class {
	case "unclosed":
		switch format {
		case "json":
			i := strings.LastIndex(doc, "}")
			if i < 0 {
				return "", false
			}
			return doc[:i] + doc[i+1:], true
		case "yaml":
			if v.Tags == nil {
				return "", false
			}
			return strings.Replace(doc, "tags: [", "tags: [[", 1), true
		case "toml":
			if v.Name == nil {
				return "", false
			}
			return strings.Replace(doc, "name = \"", "name = ", 1), true
		case "cue":
			if v.Tags == nil {
				return "", false
			}
			return strings.Replace(doc, "tags: [", "tags: [[", 1), true
		}
	case "ill-typed":
		if v.Count == nil {
			return "", false
		}
		n := strconv.Itoa(*v.Count)
		switch format {
		case "json":
			return strings.Replace(doc, `"count": `+n, `"count": "x"`, 1), true
		case "yaml", "cue":
			return strings.Replace(doc, "count: "+n, `count: "x"`, 1), true
		case "toml":
			return strings.Replace(doc, "count = "+n, `count = "x"`, 1), true
		}
	case "duplicate-key":
		if format != "toml" || v.Count == nil {
			return "", false
		}
		return "count = 1\n" + doc, true
	}
	return "", false
}

// checkUnset: keys absent from the document are unset (nil) in the value the
// decoder returns, before any stacking.
func (r *streamRun) checkUnset(format string, val reflect.Value, v *DocVal, doc string) {
	if !val.IsValid() {
		return
	}
	if val.Kind() == reflect.Ptr {
		val = val.Elem()
	}
	isNil := func(name string) (bool, bool) {
		f := val.FieldByName(name)
		if !f.IsValid() {
			return false, false
		}
		switch f.Kind() {
		case reflect.Ptr, reflect.Map, reflect.Slice, reflect.Interface:
			return f.IsNil(), true
		}
		return false, false
	}
	want := map[string]bool{
		"Name": v.Name == nil, "Éclair": v.Eclair == nil, "Size": v.SizeMB == nil, "Retries": v.Retries == nil, "Count": v.Count == nil, "Ratio": v.Ratio == nil, "On": v.On == nil, "Wait": v.WaitNS == nil,
		"When": v.When == nil, "Tags": v.Tags == nil, "Nums": v.Nums == nil, "Limits": v.Limits == nil, "Set": v.Set == nil, "Eps": v.Eps == nil,
		"In": v.InHost == nil && v.InPort == nil, "PIn": v.PInHost == nil && v.PInPort == nil && !v.PInEmpty, "IP": v.IP == nil, "Peers": v.Peers == nil, "Alt": v.Alt == nil, "Waits": v.WaitsNS == nil, "Timeouts": v.TimeoutNS == nil,
		"DocEmb": v.EmbN == nil && v.EmbS == nil && v.EmbInHost == nil && v.EmbInPort == nil, "Whens": v.Whens == nil, "PWaits": v.PWaitsNS == nil, "Deep": v.DeepLabel == nil && v.DeepWaitNS == nil,
	}
	names := make([]string, 0, len(want))
	for n := range want {
		names = append(names, n)
	}
	sort.Strings(names)
	for _, n := range names {
		got, ok := isNil(n)
		if !ok {
			r.fail("C13.unset", "%s: decoded value has no nil-able field %s", format, n)
			continue
		}
		if want[n] && !got {
			r.fail("C13.unset", "%s: key for %s is absent from the document but the decoded value sets it\n%s", format, n, doc)
		}
		if !want[n] && got {
			r.fail("C13.unset", "%s: key for %s is present in the document but the decoded value leaves it unset\n%s", format, n, doc)
		}
	}
	r.probes["absent-keys-checked"]++
}
