package main

import (
	"context"
	"fmt"
	"io"
	"reflect"
	"strings"
	"time"

	"simrt"

	"github.com/vimeo/dials"
	cuedec "github.com/vimeo/dials/decoders/cue"
	jsondec2 "github.com/vimeo/dials/decoders/json"
	tomldec "github.com/vimeo/dials/decoders/toml"
	yamldec "github.com/vimeo/dials/decoders/yaml"
)

// ---- C13: several documents decoded at the same time ----
//
// Two watched config files that change together, or two dials instances that
// start together, decode their documents on different goroutines, often
// through one shared Decoder value. Each result must be the data of its own
// document whatever the other decodes are doing. The decoders are not
// instrumented, so the scheduling points inside a decode are the ones a user's
// types provide: the reader the document arrives through and the
// text-unmarshalable leaves (a decode is parked in the middle of its document
// while another one runs from start to end).

// Gate is a text-unmarshalable leaf whose UnmarshalText is a scheduling point.
type Gate struct{ S string }

func (g *Gate) UnmarshalText(b []byte) error {
	simrt.Yield("UnmarshalText")
	g.S = string(b)
	simrt.Yield("UnmarshalText-done")
	return nil
}

type GateIn struct {
	G    Gate   `dials:"in_gate"`
	Host string `dials:"host"`
}

type CfgGate struct {
	First Gate          `dials:"a_first"`
	Name  string        `dials:"name"`
	Mid   Gate          `dials:"mid"`
	Tags  []string      `dials:"tags"`
	Wait  time.Duration `dials:"wait"`
	In    GateIn        `dials:"in"`
	Count int           `dials:"count"`
	Last  Gate          `dials:"z_last"`
	Tail  string        `dials:"zz_tail"`
}

// gateVal is the data of document id: every leaf carries the id, and the
// lengths differ from document to document.
func gateVal(id int) *CfgGate {
	pad := strings.Repeat(string(rune('a'+id%26)), 3+id%17)
	tags := make([]string, 1+id%4)
	for i := range tags {
		tags[i] = fmt.Sprintf("t%d-%d-%s", id, i, pad)
	}
	return &CfgGate{
		First: Gate{S: fmt.Sprintf("first-%d-%s", id, pad)},
		Name:  fmt.Sprintf("name-%d-%s", id, pad),
		Mid:   Gate{S: fmt.Sprintf("mid-%d", id)},
		Tags:  tags,
		Wait:  time.Duration(id)*time.Second + time.Duration(id%7)*time.Millisecond,
		In:    GateIn{G: Gate{S: fmt.Sprintf("in-%d-%s", id, pad)}, Host: fmt.Sprintf("host-%d.example", id)},
		Count: 1000 + id,
		Last:  Gate{S: fmt.Sprintf("last-%d-%s", id, pad)},
		Tail:  fmt.Sprintf("tail-%d-%s%s", id, pad, pad),
	}
}

func gateDoc(format string, v *CfgGate) string {
	q := func(s string) string { return `"` + s + `"` }
	tags := make([]string, len(v.Tags))
	for i, t := range v.Tags {
		tags[i] = q(t)
	}
	tl := "[" + strings.Join(tags, ", ") + "]"
	switch format {
	case "json":
		return fmt.Sprintf(`{"a_first": %s, "name": %s, "mid": %s, "tags": %s, "wait": %s, "in": {"in_gate": %s, "host": %s}, "count": %d, "z_last": %s, "zz_tail": %s}`,
			q(v.First.S), q(v.Name), q(v.Mid.S), tl, q(v.Wait.String()), q(v.In.G.S), q(v.In.Host), v.Count, q(v.Last.S), q(v.Tail))
	case "toml":
		return fmt.Sprintf("a_first = %s\nname = %s\nmid = %s\ntags = %s\nwait = %s\ncount = %d\nz_last = %s\nzz_tail = %s\n[in]\nin_gate = %s\nhost = %s\n",
			q(v.First.S), q(v.Name), q(v.Mid.S), tl, q(v.Wait.String()), v.Count, q(v.Last.S), q(v.Tail), q(v.In.G.S), q(v.In.Host))
	case "cue":
		return fmt.Sprintf("a_first: %s\nname: %s\nmid: %s\ntags: %s\nwait: %s\nin: {\n\tin_gate: %s\n\thost: %s\n}\ncount: %d\nz_last: %s\nzz_tail: %s\n",
			q(v.First.S), q(v.Name), q(v.Mid.S), tl, q(v.Wait.String()), q(v.In.G.S), q(v.In.Host), v.Count, q(v.Last.S), q(v.Tail))
	default: // yaml
		return fmt.Sprintf("a_first: %s\nname: %s\nmid: %s\ntags: %s\nwait: %s\nin:\n  in_gate: %s\n  host: %s\ncount: %d\nz_last: %s\nzz_tail: %s\n",
			q(v.First.S), q(v.Name), q(v.Mid.S), tl, q(v.Wait.String()), q(v.In.G.S), q(v.In.Host), v.Count, q(v.Last.S), q(v.Tail))
	}
}

// yieldReader delivers a document in pieces with a scheduling point before
// each: a file read takes a while.
type yieldReader struct {
	data  string
	pos   int
	piece int
}

func (r *yieldReader) Read(p []byte) (int, error) {
	simrt.Yield("Read")
	if r.pos >= len(r.data) {
		return 0, io.EOF
	}
	n := len(r.data) - r.pos
	if n > r.piece {
		n = r.piece
	}
	if n > len(p) {
		n = len(p)
	}
	copy(p, r.data[r.pos:r.pos+n])
	r.pos += n
	return n, nil
}

type gateSource struct {
	dec dials.Decoder
	rd  io.Reader
}

func (g *gateSource) Value(_ context.Context, t *dials.Type) (v reflect.Value, err error) {
	defer func() {
		if x := recover(); x != nil {
			err = fmt.Errorf("panic in Decode: %v", x)
		}
	}()
	return g.dec.Decode(g.rd, t)
}

const concFormats = 4

func genStreamConc(g *gen, sc *Scenario) {
	formats := []string{"json", "yaml", "toml", "cue"}
	// mostly one format for everybody (one pool, one shared decoder value)
	same := ""
	if g.pct(60) {
		same = formats[g.r.IntN(concFormats)]
	}
	id := 1
	for c := 0; c < g.in(2, 4); c++ {
		cl := ClientSpec{Name: fmt.Sprintf("decoder-%d", c), Kind: "decoder"}
		for o := 0; o < g.in(1, 3); o++ {
			f := same
			if f == "" {
				f = formats[g.r.IntN(concFormats)]
			}
			cl.Ops = append(cl.Ops, Op{K: f, N: id, D: int64([]int{1 << 20, 1 << 20, 64, 7}[g.r.IntN(4)])})
			id++
		}
		sc.Clients = append(sc.Clients, cl)
	}
	sc.MaxSteps = 4000
}

func runStreamConc(sc *Scenario, res *Result, keepLog bool) {
	r := &streamRun{sc: sc, probes: map[string]int{}}
	s := simrt.New(sc.Seed, sc.Choices)
	defer s.Close()
	s.Record, s.KeepLog, s.Bias = true, keepLog, sc.Bias
	// one Decoder value per format, shared by all tasks, as a process would
	shared := map[string]dials.Decoder{
		"json": &jsondec2.Decoder{}, "yaml": &yamldec.Decoder{}, "toml": &tomldec.Decoder{}, "cue": &cuedec.Decoder{},
	}
	clients, done := 0, 0
	for ci := range sc.Clients {
		c := &sc.Clients[ci]
		clients++
		s.Spawn(c.Name, func() {
			defer func() { done++ }()
			for _, op := range c.Ops {
				dec := shared[op.K]
				if dec == nil {
					continue
				}
				want := gateVal(op.N)
				doc := gateDoc(op.K, want)
				piece := int(op.D)
				if piece <= 0 {
					piece = 1 << 20
				}
				d, err := dials.Config(context.Background(), &CfgGate{Name: "default", Count: -1}, &gateSource{dec: dec, rd: &yieldReader{data: doc, piece: piece}})
				r.probes["decode-while-other-decodes-are-under-way"]++
				if err != nil {
					r.fail("C13.concurrent", "%s: the %s decoder rejected well-formed document %d while other decodes were under way: %v\n%s", c.Name, op.K, op.N, err, doc)
					continue
				}
				if a, b := render(d.View()), render(want); a != b {
					r.fail("C13.concurrent", "%s: %s document %d decoded while other decodes were under way\n document:\n%s\n got:  %s\n want: %s", c.Name, op.K, op.N, doc, a, b)
				}
			}
		})
	}
	reason := s.Run(sc.MaxSteps, func() bool { return done >= clients }, time.Time{})
	for _, c := range s.Crashes {
		r.fail("crash", "task %s panicked at step %d: %s\n%s", c.Task, c.Step, c.Value, c.Stack)
	}
	s.Crashes = nil
	if reason != simrt.Done {
		r.fail("stuck", "decoding tasks did not finish (%s)", reason)
	}
	res.Reason = "decoded"
	res.Viol = r.viol
	res.Hash, res.Steps, res.NChoices, res.SimNS, res.States = s.Hash(), s.Step(), s.Choices(), int64(s.Elapsed()), s.States
	for k, v := range r.probes {
		res.Probes[k] += v
	}
	res.Faults["concurrent"]++
	res.Made = make([]int, len(s.Made))
	for i, c := range s.Made {
		res.Made[i] = c.V
	}
	res.Log = s.Log
}
