package main

type EzSpec struct{}
type StreamSpec struct{}

func runStream(sc *Scenario, res *Result, keepLog bool) {}
func runEz(sc *Scenario, res *Result, keepLog bool) {}

func genStream(seed uint64, faulty bool) *Scenario { return nil }
func genEz(seed uint64, faulty bool) *Scenario     { return nil }
