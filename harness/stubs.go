package main

type FileSpec struct{}
type EzSpec struct{}
type StreamSpec struct{}

func runStream(sc *Scenario, res *Result, keepLog bool) {}
func runFile(sc *Scenario, res *Result, keepLog bool)   {}
func (r *Run) oracleC04()                                {}
func (r *Run) oracleC06()                                {}
func (r *Run) oracleC07()                                {}
func (r *Run) oracleC09()                                {}
func (r *Run) oracleC02()                                {}
func (r *Run) lifecycleShutdown()                        {}
func (r *Run) mutator(c *ClientSpec)                     {}

func genStream(seed uint64, faulty bool) *Scenario { return nil }
func genFile(seed uint64, faulty bool) *Scenario   { return nil }
func genEz(seed uint64, faulty bool) *Scenario     { return nil }
func genWrap(seed uint64, faulty bool) *Scenario   { return nil }
