package main

type StreamSpec struct{}

func runStream(sc *Scenario, res *Result, keepLog bool) {}

func genStream(seed uint64, faulty bool) *Scenario { return nil }
