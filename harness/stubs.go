package main

type FileSpec struct{}
type EzSpec struct{}
type StreamSpec struct{}

func runStream(sc *Scenario, res *Result, keepLog bool) {}
func runFile(sc *Scenario, res *Result, keepLog bool)   {}

func genStream(seed uint64, faulty bool) *Scenario { return nil }
func genFile(seed uint64, faulty bool) *Scenario   { return nil }
func genEz(seed uint64, faulty bool) *Scenario     { return nil }
