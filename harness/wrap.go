package main

import (
	"context"
	"errors"
	"fmt"
	"github.com/vimeo/dials/ptrify"
	"io"
	"math/rand/v2"
	"reflect"
	"strconv"
	"strings"
	"time"

	"simrt"

	"github.com/vimeo/dials"
	"github.com/vimeo/dials/common"
	"github.com/vimeo/dials/sourcewrap"
	"github.com/vimeo/dials/tagformat"
	"github.com/vimeo/dials/tagformat/caseconversion"
	"github.com/vimeo/dials/transform"
)

// ---- C20: wrapped / unwrapped twins (DESIGN §4 C20) ----

type WIn struct {
	Name  string `dials:"name"`
	Count int    `dials:"count" dialsalias:"oldCnt"`
}

type WEmb struct {
	EA  int
	ES  string
	EIn WIn   // a nested struct and a slice of structs inside the embedded one
	EL  []WIn // (the anonymous-flatten mangler hoists them to the top level)
}

// WGuard is embedded in CfgWrap: a struct without exported fields, which the
// anonymous-flatten mangler maps to no field at all.
type WGuard struct{ hidden int }

type CfgWrap struct {
	Stamp  uint64
	StampB uint64
	WGuard
	N    int    `dials:"n" dialsalias:"oldNum"`
	Str  string `dials:"str_val"`
	Dur  time.Duration
	Set  map[string]struct{}
	Tags []string
	In   WIn
	WEmb
}

// Verify: the wrapped config type rejects one particular value, so that
// rejections travel through the wrappers too.
func (c *CfgWrap) Verify() error {
	if c.Stamp&rejectBit != 0 {
		return fmt.Errorf("%w: stamp=%#x", errVerify, c.Stamp)
	}
	return nil
}

// (the stamp leaf is set by the wrapped source alone, so no other layer can
// make a spoilt value acceptable again)
const rejectBit = 1 << 50

// spoil makes an inner-layout value one that Verify rejects.
func spoil(v reflect.Value) reflect.Value {
	e := v
	if e.Kind() == reflect.Ptr {
		e = e.Elem()
	}
	f := e.FieldByName("Stamp")
	st := uint64(rejectBit)
	if !f.IsNil() {
		st |= f.Elem().Uint()
	}
	f.Set(reflect.ValueOf(&st))
	return v
}

const aliasSuffix = "_alias9wr876rw3"

func manglersFor(names []string) []transform.Mangler {
	var out []transform.Mangler
	for _, n := range names {
		switch n {
		case "setslice":
			out = append(out, &transform.SetSliceMangler{})
		case "alias":
			out = append(out, transform.NewAliasMangler(common.DialsTagName))
		case "tagreformat":
			out = append(out, tagformat.NewTagReformattingMangler(common.DialsTagName, caseconversion.DecodeGoCamelCase, caseconversion.EncodeLowerSnakeCase))
		case "anonflatten":
			out = append(out, transform.AnonymousFlattenMangler{})
		case "pass":
			out = append(out, &passMangler{})
		default:
			panic("harness: unknown mangler " + n)
		}
	}
	return out
}

var manglerLists = [][]string{
	{}, {"setslice"}, {"alias"}, {"tagreformat"}, {"anonflatten"}, {"pass"},
	{"setslice", "alias"}, {"alias", "setslice"}, {"tagreformat", "setslice"}, {"anonflatten", "setslice"},
	{"alias", "tagreformat", "setslice"}, // what ez uses
}

// fillMech fills the struct v (inner or native layout) mechanically, by kind,
// from a PRNG seeded with the value id, so that the same id gives the same
// logical data in whichever layout. own is the stamp leaf the caller owns;
// the other stamp leaf is left alone. bothAlias sets both members of every
// alias pair (a value the alias mangler must refuse).
func fillMech(v reflect.Value, id uint64, own string, bothAlias bool) {
	rnd := rand.New(rand.NewPCG(id, 77))
	fillStruct(v, rnd, id, own, bothAlias, true)
}

func fillStruct(v reflect.Value, rnd *rand.Rand, id uint64, own string, bothAlias, top bool) {
	t := v.Type()
	// draws are made per logical leaf name so that layouts that merely move or
	// duplicate fields consume the stream identically
	for i := 0; i < t.NumField(); i++ {
		f := t.Field(i)
		name := f.Name
		if strings.HasSuffix(name, aliasSuffix) {
			continue // handled with its original
		}
		fv := v.Field(i)
		alias := v.FieldByName(name + aliasSuffix)
		if name == "Stamp" || name == "StampB" {
			if name == own {
				p := reflect.New(fv.Type().Elem())
				p.Elem().SetUint(id)
				fv.Set(p)
			}
			continue
		}
		leafRnd := rand.New(rand.NewPCG(id, hashStr(name)))
		if leafRnd.IntN(100) < 45 && !(bothAlias && alias.IsValid()) {
			continue
		}
		target := fv
		if alias.IsValid() && leafRnd.IntN(2) == 0 {
			target = alias
		}
		setMech(target, leafRnd, id, own, bothAlias)
		if alias.IsValid() && bothAlias {
			setMech(fv, leafRnd, id, own, bothAlias)
			setMech(alias, leafRnd, id, own, bothAlias)
		}
	}
	_ = rnd
}

func setMech(fv reflect.Value, rnd *rand.Rand, id uint64, own string, bothAlias bool) {
	n := int64(id)*100 + int64(rnd.IntN(50))
	switch fv.Kind() {
	case reflect.Ptr:
		e := fv.Type().Elem()
		p := reflect.New(e)
		switch e.Kind() {
		case reflect.Struct:
			fillStruct(p.Elem(), rnd, id, own, bothAlias, false)
		case reflect.Int, reflect.Int64:
			p.Elem().SetInt(n)
		case reflect.Uint64:
			p.Elem().SetUint(uint64(n))
		case reflect.String:
			p.Elem().SetString(fmt.Sprintf("v%d", n))
		case reflect.Bool:
			p.Elem().SetBool(n%2 == 0)
		default:
			return
		}
		fv.Set(p)
	case reflect.Slice:
		if fv.Type().Elem().Kind() == reflect.String {
			k := 1 + rnd.IntN(3)
			if rnd.IntN(5) == 0 {
				k = 0 // present and empty: overrides what lower layers hold
			}
			s := reflect.MakeSlice(fv.Type(), k, k)
			for i := 0; i < k; i++ {
				s.Index(i).SetString(fmt.Sprintf("e%d_%d", n, i))
			}
			fv.Set(s)
		}
	case reflect.Map:
		k := 1 + rnd.IntN(3)
		if rnd.IntN(5) == 0 {
			k = 0
		}
		m := reflect.MakeMap(fv.Type())
		for i := 0; i < k; i++ {
			m.SetMapIndex(reflect.ValueOf(fmt.Sprintf("e%d_%d", n, i)), reflect.Zero(fv.Type().Elem()))
		}
		fv.Set(m)
	}
}

// innerValue builds the value an inner source behind the manglers returns:
// the struct itself or - as Blank, the flag sources and most hand-written
// sources do - a pointer to it (which of the two is a function of the id).
func innerValue(t *dials.Type, id uint64, own string, both bool) reflect.Value {
	p := reflect.New(t.Type())
	fillMech(p.Elem(), id, own, both)
	if id%2 == 1 {
		return p
	}
	return p.Elem()
}

// nativeValue is the same logical data in the layout Dials asks an unwrapped
// source for: the harness's own transformer reverse-translates the
// mechanically filled inner layout.
func nativeValue(t *dials.Type, names []string, id uint64, own string) (reflect.Value, error) {
	tfm := transform.NewTransformer(t.Type(), manglersFor(names)...)
	it, err := tfm.TranslateType()
	if err != nil {
		return reflect.Value{}, err
	}
	iv := reflect.New(it).Elem()
	fillMech(iv, id, own, false)
	return tfm.ReverseTranslate(iv)
}

// nativeDirect writes the same logical data into the layout Dials asks an
// unwrapped source for WITHOUT any library code: the native type is filled
// leaf by leaf with the draws fillMech makes for the mangled layout (an
// aliased leaf consumes the which-of-the-two draw; a set is a map here and a
// list there, drawn alike). It is the independent reference for what the
// library's reverse translation must produce. (Under anonflatten the leaves of
// an embedded struct are drawn at the enclosing level, and the embedded
// pointer exists iff one of them is set.)
func nativeDirect(t *dials.Type, names []string, id uint64, own string) reflect.Value {
	v := reflect.New(t.Type()).Elem()
	fillNative(v, names, id, own)
	return v
}

func fillNative(v reflect.Value, names []string, id uint64, own string) (anySet bool) {
	t := v.Type()
	for i := 0; i < t.NumField(); i++ {
		f := t.Field(i)
		fv := v.Field(i)
		if f.Anonymous && contains(names, "anonflatten") && fv.Kind() == reflect.Ptr && fv.Type().Elem().Kind() == reflect.Struct {
			// the mangled layout has this struct's fields at the enclosing level,
			// each drawn by its own name; the embedded pointer exists iff one of
			// them is set
			p := reflect.New(fv.Type().Elem())
			if fillNative(p.Elem(), names, id, own) {
				fv.Set(p)
				anySet = true
			}
			continue
		}
		if f.Name == "Stamp" || f.Name == "StampB" {
			if f.Name == own {
				p := reflect.New(fv.Type().Elem())
				p.Elem().SetUint(id)
				fv.Set(p)
				anySet = true
			}
			continue
		}
		leafRnd := rand.New(rand.NewPCG(id, hashStr(f.Name)))
		if leafRnd.IntN(100) < 45 {
			continue
		}
		if contains(names, "alias") && f.Tag.Get("dialsalias") != "" {
			leafRnd.IntN(2) // which of original and alias carries the value in the mangled layout
		}
		if fv.Kind() == reflect.Ptr && fv.Type().Elem().Kind() == reflect.Struct {
			leafRnd.IntN(50) // setMech's value draw, unused for structs
			p := reflect.New(fv.Type().Elem())
			fillNative(p.Elem(), names, id, own)
			fv.Set(p)
			anySet = true
			continue
		}
		setMech(fv, leafRnd, id, own, false)
		if !fv.IsZero() {
			anySet = true
		}
	}
	return anySet
}

type WrapSpec struct {
	Nest     int      `json:"nest,omitempty"` // >0: two directly nested transforming sources, the outer one with the first Nest manglers of the list, the inner one with the rest
	Kind     string   `json:"kind"`           // twatch | tstatic | blank-static | blank-watch | blank-twatch | blank-only
	Manglers []string `json:"manglers"`
	InitID   uint64   `json:"init_id"`
	Fault    string   `json:"fault,omitempty"` // value-err | watch-err | both-alias
}

func genWrap(seed uint64, faulty bool) *Scenario {
	g := &gen{r: rand.New(rand.NewPCG(seed, 0x5eed5eed))}
	sc := &Scenario{Prop: "C20", Seed: seed, Faulty: faulty, GlobalCB: "instant", Shutdown: "cancel", MaxSteps: 8000}
	w := &WrapSpec{Manglers: manglerLists[g.r.IntN(len(manglerLists))], InitID: g.id()}
	w.Kind = []string{"twatch", "twatch", "tstatic", "blank-static", "blank-watch", "blank-twatch", "blank-only", "blank-inside-t"}[g.r.IntN(8)]
	if g.pct(8) {
		// one transforming decoder value shared by several sources that decode at the same time
		w.Kind = "shared-decoder"
		sc.Wrap = w
		for c, n := 0, g.in(2, 3); c < n; c++ {
			cl := ClientSpec{Name: fmt.Sprintf("dec%d", c), Kind: "decoder"}
			for i, k := 0, g.in(1, 4); i < k; i++ {
				cl.Ops = append(cl.Ops, Op{K: "decode", N: int(g.id())})
			}
			sc.Clients = append(sc.Clients, cl)
		}
		return sc
	}
	if faulty && g.pct(25) {
		w.Fault = []string{"value-err", "watch-err", "both-alias"}[g.r.IntN(3)]
		if w.Fault == "both-alias" && !contains(w.Manglers, "alias") {
			w.Manglers = append([]string{"alias"}, w.Manglers...)
		}
	}
	if len(w.Manglers) >= 2 && g.pct(35) {
		w.Nest = g.in(1, len(w.Manglers)-1)
	}
	sc.Wrap = w
	// the wrapped side's program
	c := ClientSpec{Name: "wrapped", Kind: "wrapped"}
	for i, n := 0, g.in(1, 6); i < n; i++ {
		switch {
		case strings.HasPrefix(w.Kind, "blank") && g.pct(45):
			k := []string{"set-static", "set-static", "set-watch", "set-watch-eager", "set-fail", "set-watch-fail", "bdone", "bvalue"}[g.r.IntN(8)]
			op := Op{K: k, N: int(g.id())}
			if g.pct(50) {
				op.Ctx = "call"
			}
			if faulty && (k == "set-static" || k == "set-watch") && g.pct(20) {
				op.Str = "invalid" // a value the config's Verify rejects
			}
			if op.Str == "" && k == "set-static" && g.pct(12) {
				op.Str = "unset" // a source that sets nothing at all: whatever the slot held is cleared
			}
			c.Ops = append(c.Ops, op)
		case g.pct(15):
			c.Ops = append(c.Ops, Op{K: "sleep", D: int64(g.in(1, 300)) * 1e6})
		case faulty && g.pct(12):
			c.Ops = append(c.Ops, Op{K: "err", Str: fmt.Sprintf("inner-error-%d", i)})
		case faulty && g.pct(10) && contains(w.Manglers, "alias"):
			c.Ops = append(c.Ops, Op{K: "report-both", N: int(g.id())})
		case g.pct(50):
			c.Ops = append(c.Ops, Op{K: "breport", N: int(g.id())})
		default:
			c.Ops = append(c.Ops, Op{K: "report", N: int(g.id())})
		}
		if last := &c.Ops[len(c.Ops)-1]; faulty && (last.K == "breport" || last.K == "report") && g.pct(15) {
			last.Str = "invalid"
		}
		if last := &c.Ops[len(c.Ops)-1]; last.Str == "" && (last.K == "breport" || last.K == "report") && g.pct(10) {
			last.Str = "unset" // an update in which no field is set: the slot's earlier value is cleared
		}
	}
	if w.Kind != "blank-only" {
		// a second, plain watching source in both twins
		b := ClientSpec{Name: "plain", Kind: "plain"}
		nPlain := g.in(0, 4)
		for i := range c.Ops {
			if c.Ops[i].Str == "invalid" {
				// a rejected value stays in its slot and makes every later stack
				// unacceptable until it is replaced: the other source keeps quiet
				// in such runs, so that the twins cannot drift apart meanwhile
				nPlain = 0
			}
		}
		for i, n := 0, nPlain; i < n; i++ {
			if g.pct(20) {
				b.Ops = append(b.Ops, Op{K: "sleep", D: int64(g.in(1, 300)) * 1e6})
			} else if g.pct(50) {
				b.Ops = append(b.Ops, Op{K: "breport", N: int(g.id())})
			} else {
				b.Ops = append(b.Ops, Op{K: "report", N: int(g.id())})
			}
		}
		sc.Clients = append(sc.Clients, b)
	}
	if strings.HasPrefix(w.Kind, "blank") && g.pct(30) {
		// somebody else calls Blank.Done while the wrapped side's program is
		// at work (SetSource calls then carry a deadline: with the slot
		// released and the monitor gone they end with their context)
		d := ClientSpec{Name: "doner", Kind: "doner", Ops: []Op{{K: "pause", N: g.in(0, 60)}, {K: "cdone"}}}
		for i := range c.Ops {
			if strings.HasPrefix(c.Ops[i].K, "set-") {
				// (an hour: far beyond every sleep of the run, so it only ends a call that is really stuck)
				c.Ops[i].Ctx, c.Ops[i].D = "deadline", int64(time.Hour)
			}
		}
		sc.Clients = append(sc.Clients, d)
	}
	sc.Clients = append(sc.Clients, c)
	switch g.r.IntN(5) {
	case 0:
		sc.Bias.Sticky = g.in(30, 90)
	}
	return sc
}

func contains(l []string, s string) bool {
	for _, x := range l {
		if x == s {
			return true
		}
	}
	return false
}

// ---- sources ----

var errInner = errors.New("harness: injected inner-source failure")

type wInner struct {
	id      uint64
	own     string
	both    bool
	failVal bool
	invalid bool // the value is one Verify rejects
	unset   bool // the value sets nothing at all
	vals    int
}

// unsetValue is a value of the requested type in which no field is set (the
// struct or a pointer to it, by the parity of the id, as innerValue does).
func unsetValue(t *dials.Type, id uint64) reflect.Value {
	p := reflect.New(t.Type())
	if id%2 == 1 {
		return p
	}
	return p.Elem()
}

// curWrap is the run under way; wrapInnerType is the type its innermost
// sources must be asked for: the config type as ONE transformer with the run's
// mangler list translates it, however the wrappers are nested.
var (
	curWrap       *wrapRun
	wrapInnerType reflect.Type
	skipInnerType bool
)

func checkInnerType(t *dials.Type, where string) {
	if r := curWrap; r != nil && wrapInnerType != nil && !skipInnerType && t.Type() != wrapInnerType {
		r.probes["inner-type-mismatch"]++
		r.fail("C20.inner-type", "%s: the source behind the wrappers (manglers %v, nested at %d) was asked for\n  %s\ninstead of\n  %s", where, r.sc.Wrap.Manglers, r.sc.Wrap.Nest, t.Type(), wrapInnerType)
	}
}

func (s *wInner) Value(_ context.Context, t *dials.Type) (reflect.Value, error) {
	checkInnerType(t, "Value")
	simrt.Yield("inner.Value") // a real source reads something here: others run meanwhile
	if s.failVal {
		return reflect.Value{}, errInner
	}
	s.vals++
	if s.invalid {
		return spoil(innerValue(t, s.id, s.own, s.both)), nil
	}
	if s.unset {
		return unsetValue(t, s.id), nil
	}
	return innerValue(t, s.id, s.own, s.both), nil
}

type wInnerWatch struct {
	wInner
	failWatch bool
	eager     uint64 // a poller whose first poll happens inside Watch: it reports this newer value at once
	eagerErr  error
	wa        dials.WatchArgs
	typ       *dials.Type
	ctx       context.Context // what Watch was given: a watcher lives exactly as long as this
}

func (s *wInnerWatch) Watch(ctx context.Context, t *dials.Type, wa dials.WatchArgs) error {
	checkInnerType(t, "Watch")
	if s.failWatch {
		return errInner
	}
	s.wa, s.typ, s.ctx = wa, t, ctx
	if s.eager != 0 {
		s.eagerErr = wa.ReportNewValue(ctx, innerValue(t, s.eager, s.own, false))
	}
	return nil
}

// native twin sources
type wNative struct {
	names []string
	id    uint64
	own   string
}

func (s *wNative) Value(_ context.Context, t *dials.Type) (reflect.Value, error) {
	if s.id == 0 {
		return reflect.New(t.Type()).Elem(), nil
	}
	return nativeValue(t, s.names, s.id, s.own)
}

type wNativeWatch struct {
	wNative
	wa  dials.WatchArgs
	typ *dials.Type
}

func (s *wNativeWatch) Watch(_ context.Context, t *dials.Type, wa dials.WatchArgs) error {
	s.wa, s.typ = wa, t
	return nil
}

type wrapRun struct {
	sc      *Scenario
	sim     *simrt.Sim
	ctx     context.Context
	cancel  context.CancelFunc
	W, U    *dials.Dials[CfgWrap]
	viol    []Violation
	probes  map[string]int
	done    int
	clients int
	// blank reference model
	state             string // empty | static | watching
	expectMonitorGone bool
	expectStamp       uint64 // stamp the wrapped twin must show once settled (0: only twin equality is checked)
	watchers          []*wInnerWatch
	doneInvoke        int // a concurrent Blank.Done (doner client): steps of its invocation and return
	doneReturn        int
}

// doner calls Blank.Done from another goroutine than the one that sets sources.
func (r *wrapRun) doner(c *ClientSpec, blank *sourcewrap.Blank) {
	for i := range c.Ops {
		op := &c.Ops[i]
		switch op.K {
		case "pause":
			for n := 0; n < op.N; n++ {
				simrt.Yield("pause")
			}
		case "cdone":
			r.doneInvoke = r.sim.Step()
			ctx, cancel := context.WithTimeout(r.ctx, time.Hour)
			blank.Done(ctx)
			cancel()
			r.doneReturn = r.sim.Step()
			r.probes["concurrent-blank-done"]++
		}
	}
}

// watchContexts: natively a watcher is handed the Config context and lives as
// long as it; behind a wrapper the context it is handed must end exactly then.
func (r *wrapRun) watchContexts(when string) {
	for _, w := range r.watchers {
		if w.ctx == nil {
			continue
		}
		r.probes["watch-context-checked"]++
		switch {
		case r.ctx.Err() == nil && w.ctx.Err() != nil:
			r.fail("C20.watch-context", "%s: the context the wrapper handed to the inner watcher's Watch has ended (%v) although the Config context is live: the watcher has shut down and its later updates are lost", when, w.ctx.Err())
		case r.ctx.Err() != nil && w.ctx.Err() == nil:
			r.fail("C20.watch-context", "%s: the Config context has ended but the context the wrapper handed to the inner watcher's Watch is still live: the watcher never stops", when)
		}
	}
}

func (r *wrapRun) fail(oracle, format string, a ...any) {
	if len(r.viol) < 20 {
		r.viol = append(r.viol, Violation{Oracle: oracle, Msg: fmt.Sprintf(format, a...)})
	}
}

// releasedMeanwhile: a SetSource that ended with its context's error after
// somebody else had called Blank.Done - the slot was released (and, if the
// Blank was the only watcher, the monitor is gone): legitimate, and the end of
// the wrapped side's program.
func (r *wrapRun) releasedMeanwhile(err error) bool {
	if err != nil && isCtxErr(err) && r.doneInvoke != 0 {
		r.probes["setsource-after-concurrent-done"]++
		return true
	}
	return false
}

func serialW(s dials.CfgSerial[CfgWrap]) uint64 { return reflect.ValueOf(s).FieldByName("s").Uint() }

// passMangler changes nothing. Like most manglers of the library it is a
// zero-size struct used through a pointer: all such pointers are equal (and
// print alike), whatever their type.
type passMangler struct{}

func (*passMangler) Mangle(sf reflect.StructField) ([]reflect.StructField, error) {
	return []reflect.StructField{sf}, nil
}

func (*passMangler) Unmangle(_ reflect.StructField, vs []transform.FieldValueTuple) (reflect.Value, error) {
	return vs[0].Value, nil
}

func (*passMangler) ShouldRecurse(reflect.StructField) bool { return false }

// yieldMangler passes every field through unchanged; its Mangle is a
// scheduling point, so that another task can run in the middle of a
// Transformer's TranslateType (in a real process goroutines are preempted
// anywhere; the simulator only switches at its yields).
type yieldMangler struct{}

func (yieldMangler) Mangle(sf reflect.StructField) ([]reflect.StructField, error) {
	simrt.Yield("mangle")
	return []reflect.StructField{sf}, nil
}

func (yieldMangler) Unmangle(_ reflect.StructField, vs []transform.FieldValueTuple) (reflect.Value, error) {
	return vs[0].Value, nil
}

func (yieldMangler) ShouldRecurse(reflect.StructField) bool { return false }

// yieldingDecoder is the inner decoder behind the shared transforming decoder:
// the "document" is a value id; it takes a while to read (a scheduling point),
// as a real decoder reading a file does.
type yieldingDecoder struct{}

func (yieldingDecoder) Decode(rd io.Reader, t *dials.Type) (reflect.Value, error) {
	b, err := io.ReadAll(rd)
	if err != nil {
		return reflect.Value{}, err
	}
	id, err := strconv.ParseUint(string(b), 10, 64)
	if err != nil {
		return reflect.Value{}, err
	}
	simrt.Yield("inner.Decode")
	v := innerValue(t, id, "Stamp", false)
	simrt.Yield("inner.Decode-done")
	return v, nil
}

// runSharedDecoder: several tasks decode through ONE transforming decoder
// value; each result must be the document's data, whatever the others do.
func runSharedDecoder(sc *Scenario, r *wrapRun, s *simrt.Sim) {
	names := sc.Wrap.Manglers
	dec := sourcewrap.NewTransformingDecoder(yieldingDecoder{}, append([]transform.Mangler{yieldMangler{}}, manglersFor(names)...)...)
	typ := dials.NewType(ptrify.Pointerify(reflect.TypeOf(CfgWrap{}), reflect.ValueOf(CfgWrap{})))
	for ci := range sc.Clients {
		c := &sc.Clients[ci]
		r.clients++
		s.Spawn(c.Name, func() {
			defer func() { r.done++ }()
			for i := range c.Ops {
				id := uint64(c.Ops[i].N)
				got, err := dec.Decode(strings.NewReader(strconv.FormatUint(id, 10)), typ)
				r.probes["decode-through-a-shared-transforming-decoder"]++
				if err != nil {
					r.fail("C20.shared-decoder", "%s: decoding document %d through the shared transforming decoder (manglers %v) failed: %v", c.Name, id, names, err)
					continue
				}
				want, werr := nativeValue(typ, names, id, "Stamp")
				if werr != nil {
					panic(werr)
				}
				if got.Kind() == reflect.Ptr {
					got = got.Elem()
				}
				if want.Kind() == reflect.Ptr {
					want = want.Elem()
				}
				if a, b := render(got.Interface()), render(want.Interface()); a != b {
					r.fail("C20.shared-decoder", "%s: document %d decoded through the shared transforming decoder (manglers %v) while other decodes were under way\n got:  %s\n want: %s", c.Name, id, names, a, b)
				}
			}
		})
	}
	reason := s.Run(sc.MaxSteps, func() bool { return r.done >= r.clients }, time.Time{})
	for _, c := range s.Crashes {
		r.fail("crash", "task %s panicked at step %d: %s\n%s", c.Task, c.Step, c.Value, c.Stack)
	}
	s.Crashes = nil
	if reason != simrt.Done {
		r.fail("stuck", "decoding clients did not finish (%s)", reason)
	}
}

// wrapT puts src behind the run's manglers: one transforming source, or two
// directly nested ones (the outer layer's manglers come first in the list:
// they see the type first and the value last).
func wrapT(w *WrapSpec, src dials.Source) dials.Source {
	mg := manglersFor(w.Manglers)
	if w.Nest > 0 && w.Nest < len(mg) {
		return sourcewrap.NewTransformingSource(sourcewrap.NewTransformingSource(src, mg[w.Nest:]...), mg[:w.Nest]...)
	}
	return sourcewrap.NewTransformingSource(src, mg...)
}

func runWrap(sc *Scenario, res *Result, keepLog bool) {
	w := sc.Wrap
	r := &wrapRun{sc: sc, probes: map[string]int{}, state: "empty"}
	s := simrt.New(sc.Seed, sc.Choices)
	defer s.Close()
	r.sim = s
	s.Record, s.KeepLog, s.Bias = true, keepLog, sc.Bias
	if w.Kind == "shared-decoder" {
		r.ctx, r.cancel = context.WithCancel(context.Background())
		runSharedDecoder(sc, r, s)
		r.cancel()
		res.Reason = "decoded"
		res.Viol = r.viol
		res.Hash, res.Steps, res.NChoices, res.SimNS, res.States = s.Hash(), s.Step(), s.Choices(), int64(s.Elapsed()), s.States
		for k, v := range r.probes {
			res.Probes[k] += v
		}
		res.Made = make([]int, len(s.Made))
		for i, c := range s.Made {
			res.Made[i] = c.V
		}
		res.Log = s.Log
		return
	}
	r.ctx, r.cancel = context.WithCancel(context.Background())
	mg := manglersFor(w.Manglers)
	curWrap, wrapInnerType = r, nil
	defer func() { curWrap, wrapInnerType = nil, nil }()
	if it, terr := transform.NewTransformer(ptrify.Pointerify(reflect.TypeOf(CfgWrap{}), reflect.ValueOf(CfgWrap{})), manglersFor(w.Manglers)...).TranslateType(); terr == nil {
		wrapInnerType = it
	}
	{
		// an earlier component of the process has wrapped a source for the same
		// config type with a mangler list of the same shape, in which the
		// zero-size manglers are other ones (their pointers are all equal)
		sib := append([]string(nil), w.Manglers...)
		differs := false
		for i, n := range sib {
			switch n {
			case "setslice":
				sib[i], differs = "pass", true
			case "pass":
				sib[i], differs = "setslice", true
			}
		}
		if differs && w.Kind != "shared-decoder" {
			skipInnerType = true
			typ := dials.NewType(ptrify.Pointerify(reflect.TypeOf(CfgWrap{}), reflect.ValueOf(CfgWrap{})))
			func() {
				defer func() {
					if x := recover(); x != nil {
						r.fail("crash", "Value of a transforming source (manglers %v) over well-formed data panicked: %v", sib, x)
					}
				}()
				if _, err := sourcewrap.NewTransformingSource(&wInner{id: 1, own: "Stamp"}, manglersFor(sib)...).Value(r.ctx, typ); err != nil {
					r.fail("C20.initial", "Value of a transforming source (manglers %v) over well-formed data failed: %v", sib, err)
				}
			}()
			skipInnerType = false
			r.probes["sibling-wrapper-with-other-zero-size-manglers"]++
		}
	}
	defaults := func() *CfgWrap { return &CfgWrap{N: 1, Str: "default", Tags: []string{"t0"}, In: WIn{Name: "in0"}} }

	// the wrapped side
	var blank *sourcewrap.Blank
	var innerW *wInnerWatch
	var wsrc dials.Source
	nat := &wNativeWatch{wNative: wNative{names: w.Manglers, id: w.InitID, own: "Stamp"}}
	switch w.Kind {
	case "twatch":
		innerW = &wInnerWatch{wInner: wInner{id: w.InitID, own: "Stamp", both: w.Fault == "both-alias", failVal: w.Fault == "value-err"}, failWatch: w.Fault == "watch-err"}
		r.watchers = append(r.watchers, innerW)
		wsrc = wrapT(w, innerW)
	case "tstatic":
		wsrc = wrapT(w, &wInner{id: w.InitID, own: "Stamp", both: w.Fault == "both-alias", failVal: w.Fault == "value-err"})
	case "blank-inside-t":
		// the other nesting: a Blank behind the transforming source; what is later
		// set on it lives in the mangled layout and is not wrapped again
		blank = &sourcewrap.Blank{}
		wsrc = wrapT(w, blank)
		nat.id = 0
	default:
		blank = &sourcewrap.Blank{}
		wsrc = blank
		nat.id = 0
	}
	plainW := &wNativeWatch{wNative: wNative{id: 0, own: "StampB"}}
	plainU := &wNativeWatch{wNative: wNative{id: 0, own: "StampB"}}
	var errW, errU error
	wsources := []dials.Source{wsrc}
	usources := []dials.Source{nat}
	if w.Kind != "blank-only" {
		wsources = append(wsources, plainW)
		usources = append(usources, plainU)
	}
	{
		// Config runs as a task: should it block (a wrapper that waits for a
		// monitor which does not exist yet), that is a call that never
		// returns, not a deadlock of the simulator
		returned := false
		s.Spawn("config", func() {
			defer func() {
				if x := recover(); x != nil {
					r.fail("crash", "Config panicked: %v", x)
					errW = fmt.Errorf("panic")
				}
				returned = true
			}()
			r.W, errW = dials.Config(r.ctx, defaults(), wsources...)
		})
		if reason := s.Run(sc.MaxSteps, func() bool { return returned }, time.Time{}); reason != simrt.Done {
			r.fail("stuck", "Config over the wrapped source never returned (%s): %s", reason, s.ParkedLabels())
			r.cancel()
			s.Run(2000, nil, time.Now().Add(settleHorizon))
			res.Reason = "config-stuck"
			res.Viol = r.viol
			res.Hash, res.Steps, res.NChoices, res.SimNS, res.States = s.Hash(), s.Step(), s.Choices(), int64(s.Elapsed()), s.States
			return
		}
	}
	expectErr := w.Fault != "" && (w.Kind == "twatch" || w.Kind == "tstatic") && !(w.Fault == "watch-err" && w.Kind == "tstatic")
	switch {
	case expectErr && errW == nil:
		r.fail("C20.error-swallowed", "inner source fault %q behind a transforming source, but Config returned no error", w.Fault)
	case expectErr && w.Fault != "both-alias" && !errors.Is(errW, errInner):
		r.fail("C20.error-swallowed", "Config failed with %v, which does not wrap the inner source's error", errW)
	case !expectErr && errW != nil:
		r.fail("C20.initial", "Config over the wrapped source failed: %v", errW)
	}
	if errW == nil && r.W != nil {
		s.Settle() // the wrapped twin's goroutines register (entry#1) before the unwrapped twin's (entry#2)
		r.U, errU = dials.Config(r.ctx, defaults(), usources...)
		s.Settle()
		if errU != nil {
			// the unwrapped twin's values are the library's own reverse
			// translation of mechanically filled, well-formed data: when that
			// fails (it never does on a tree whose Transformer works) the
			// reverse translation is what is broken
			r.fail("C20.unmangle", "the reverse translation (manglers %v) of well-formed data for the unwrapped twin failed: %v", w.Manglers, errU)
			r.cancel()
			s.Run(2000, nil, time.Now().Add(settleHorizon))
			res.Reason = "twin-failed"
			res.Viol = r.viol
			res.Hash, res.Steps, res.NChoices, res.SimNS, res.States = s.Hash(), s.Step(), s.Choices(), int64(s.Elapsed()), s.States
			return
		}
		r.compare("after the initial Config")
		if reflect.TypeOf(r.W.View()) != reflect.TypeOf(&CfgWrap{}) {
			r.fail("C20.initial", "view has type %T", r.W.View())
		}
		for ci := range sc.Clients {
			c := &sc.Clients[ci]
			r.clients++
			switch c.Kind {
			case "plain":
				s.Spawn(c.Name, func() { r.plain(c, plainW, plainU); r.done++ })
			case "wrapped":
				s.Spawn(c.Name, func() { r.wrapped(c, blank, innerW, nat, mg); r.done++ })
			case "doner":
				s.Spawn(c.Name, func() { r.doner(c, blank); r.done++ })
			}
		}
		reason := s.Run(sc.MaxSteps, func() bool { return r.done >= r.clients }, time.Time{})
		settle := s.Run(sc.MaxSteps, nil, time.Now().Add(settleHorizon))
		res.Reason = string(reason) + "/" + string(settle)
		for _, c := range s.Crashes {
			r.fail("crash", "task %s panicked at step %d: %s\n%s", c.Task, c.Step, c.Value, c.Stack)
		}
		s.Crashes = nil
		if reason != simrt.Done {
			var lines []string
			for _, t := range s.Tasks() {
				if t.State != simrt.Exited {
					lines = append(lines, fmt.Sprintf("%s: %s at %q", t.Name, t.State, t.Label))
				}
			}
			r.fail("stuck", "clients did not finish (%s)\n%s", reason, strings.Join(lines, "\n"))
		} else {
			r.watchContexts("after all updates settled")
			r.compare("after all updates settled")
			if r.expectMonitorGone {
				// Blank was the only watcher and released its slot: the wrapped
				// twin's monitor and callback goroutine (the first two library
				// tasks of the run) must be gone although the context lives on
				for _, t := range s.Tasks() {
					if t.Lib && strings.HasSuffix(t.Name, "entry#1") && t.State != simrt.Exited {
						r.fail("C20.blank", "Blank.Done released the only watch slot but %s is still %s at %q", t.Name, t.State, t.Label)
					}
				}
			}
		}
	}
	r.cancel()
	s.Run(20000, nil, time.Now().Add(settleHorizon))
	r.watchContexts("after the Config context was cancelled")
	for _, t := range s.Tasks() {
		if t.Lib && t.State != simrt.Exited {
			r.fail("C08.leak", "library goroutine %s still %s at %q after cancel", t.Name, t.State, t.Label)
		}
	}
	res.Viol = r.viol
	res.Hash, res.Steps, res.NChoices, res.SimNS, res.States = s.Hash(), s.Step(), s.Choices(), int64(s.Elapsed()), s.States
	for k, v := range r.probes {
		res.Probes[k] += v
	}
	res.Made = make([]int, len(s.Made))
	for i, c := range s.Made {
		res.Made[i] = c.V
	}
	res.Log = s.Log
}

func (r *wrapRun) compare(when string) {
	wv, ws := r.W.ViewVersion()
	uv, us := r.U.ViewVersion()
	if a, b := render(wv), render(uv); a != b {
		r.fail("C20.twin", "%s the wrapped and the unwrapped twin differ\n wrapped:   %s\n unwrapped: %s", when, a, b)
	}
	if serialW(ws) != serialW(us) {
		r.fail("C20.twin", "%s the twins installed a different number of versions: wrapped %d, unwrapped %d", when, serialW(ws), serialW(us))
	}
}

func (r *wrapRun) plain(c *ClientSpec, a, b *wNativeWatch) {
	for i := range c.Ops {
		op := &c.Ops[i]
		if op.K == "sleep" {
			simrt.Sleep(time.Duration(op.D))
			continue
		}
		for _, tw := range []*wNativeWatch{a, b} {
			v, err := nativeValue(tw.typ, nil, uint64(op.N), "StampB")
			if err != nil {
				panic(err)
			}
			if op.K == "breport" {
				err = tw.wa.BlockingReportNewValue(r.ctx, v)
			} else {
				err = tw.wa.ReportNewValue(r.ctx, v)
			}
			if err != nil {
				r.fail("C20.update", "plain source report failed: %v", err)
			}
		}
	}
}

// wrapped drives the wrapped source and mirrors every successful update on
// the native twin.
func (r *wrapRun) wrapped(c *ClientSpec, blank *sourcewrap.Blank, inner *wInnerWatch, nat *wNativeWatch, mg []transform.Mangler) {
	names := r.sc.Wrap.Manglers
	mirror := func(id uint64, blocking bool) {
		v, err := nativeValue(nat.typ, names, id, "Stamp")
		if err != nil {
			panic(err)
		}
		{
			// the library's own reverse translation against the same data written natively
			lib := v
			if lib.Kind() == reflect.Ptr {
				lib = lib.Elem()
			}
			if a, b := render(lib.Interface()), render(nativeDirect(nat.typ, names, id, "Stamp").Interface()); a != b {
				r.fail("C20.unmangle", "reverse translation (manglers %v) of value %d differs from the same data written natively\n reverse-translated: %s\n native:             %s", names, id, a, b)
			}
			r.probes["reverse-translation-checked-against-native"]++
		}
		if blocking {
			err = nat.wa.BlockingReportNewValue(r.ctx, v)
		} else {
			err = nat.wa.ReportNewValue(r.ctx, v)
		}
		if err != nil {
			panic(err)
		}
	}
	// mirrorInvalid: the unwrapped twin gets the same rejected value (a rejected
	// value stays in its source's slot and spoils later stacks on both sides alike)
	mirrorInvalid := func(id uint64, blocking bool) {
		v, err := nativeValue(nat.typ, names, id, "Stamp")
		if err != nil {
			panic(err)
		}
		spoil(v)
		if blocking {
			if err = nat.wa.BlockingReportNewValue(r.ctx, v); err == nil || !errors.Is(err, errVerify) {
				panic(fmt.Sprintf("the unwrapped twin accepted a spoilt value: %v", err))
			}
		} else if err = nat.wa.ReportNewValue(r.ctx, v); err != nil {
			panic(err)
		}
	}
	// mirrorUnset: the unwrapped twin's source reports a value that sets nothing
	mirrorUnset := func(id uint64, blocking bool) {
		v := unsetValue(nat.typ, id)
		var err error
		if blocking {
			err = nat.wa.BlockingReportNewValue(r.ctx, v)
		} else {
			err = nat.wa.ReportNewValue(r.ctx, v)
		}
		if err != nil {
			panic(err)
		}
	}
	var blankInner *wInner
	// callCtx: SetSource is often called with a context of its own that ends
	// as soon as the call has returned (a per-request timeout)
	callCtx := func(op *Op) (context.Context, context.CancelFunc) {
		if op.Ctx == "call" {
			r.probes["setsource-with-a-per-call-context"]++
			return context.WithCancel(r.ctx)
		}
		if op.Ctx == "deadline" {
			return context.WithTimeout(r.ctx, time.Duration(op.D))
		}
		return r.ctx, func() {}
	}
	for i := range c.Ops {
		op := &c.Ops[i]
		id := uint64(op.N)
		r.watchContexts("before " + op.K)
		switch op.K {
		case "sleep":
			simrt.Sleep(time.Duration(op.D))
		case "report", "breport", "report-both":
			if inner == nil || inner.wa == nil {
				continue
			}
			v := innerValue(inner.typ, id, "Stamp", op.K == "report-both")
			if op.Str == "invalid" {
				// rejected by Verify: the blocking reporter is told, nothing changes
				before := r.W.View()
				var err error
				if op.K == "breport" {
					err = inner.wa.BlockingReportNewValue(r.ctx, spoil(v))
					if err == nil || !errors.Is(err, errVerify) {
						r.fail("C20.error-swallowed", "a blocking report through the wrapper of a value that Verify rejects returned %v", err)
					}
				} else {
					err = inner.wa.ReportNewValue(r.ctx, spoil(v))
					simrt.Yield("after-invalid-report")
				}
				_ = before
				if got := r.W.View().Stamp; op.K == "breport" && got&rejectBit != 0 {
					r.fail("C20.update", "a rejected blocking report through the wrapper is visible (stamp %#x)", got)
				}
				mirrorInvalid(id, op.K == "breport")
				r.probes["rejected-update-through-wrapper"]++
				continue
			}
			if op.Str == "unset" && op.K != "report-both" {
				// an update that sets nothing replaces the slot's value like any
				// other: the leaves it used to set fall back to the lower layers
				var err error
				if op.K == "breport" {
					err = inner.wa.BlockingReportNewValue(r.ctx, unsetValue(inner.typ, id))
				} else {
					err = inner.wa.ReportNewValue(r.ctx, unsetValue(inner.typ, id))
				}
				r.probes["all-unset-update-through-wrapper"]++
				if err != nil {
					r.fail("C20.update", "report of an all-unset value through the wrapper failed: %v", err)
					continue
				}
				mirrorUnset(id, op.K == "breport")
				if got := r.W.View().Stamp; op.K == "breport" && got != 0 {
					r.fail("C20.update", "blocking report of an all-unset value through the wrapper returned nil but the view still holds the slot's earlier value (stamp %d)", got)
				}
				continue
			}
			var err error
			if op.K == "breport" {
				err = inner.wa.BlockingReportNewValue(r.ctx, v)
			} else {
				err = inner.wa.ReportNewValue(r.ctx, v)
			}
			r.probes["update-through-wrapper"]++
			if op.K == "report-both" {
				r.probes["unmangle-error-on-update"]++
				if err == nil {
					r.fail("C20.error-swallowed", "an update whose reverse translation fails (alias and original both set) was accepted without an error")
				}
				continue
			}
			if err != nil {
				r.fail("C20.update", "report through the wrapper failed: %v", err)
				continue
			}
			mirror(id, op.K == "breport")
			if op.K == "breport" {
				if got := r.W.View().Stamp; got != id {
					r.fail("C20.update", "blocking report through the wrapper returned nil but the view holds stamp %d, not %d", got, id)
				}
			}
		case "err":
			if inner == nil || inner.wa == nil {
				continue
			}
			inner.wa.ReportError(r.ctx, fmt.Errorf("%s", op.Str))
		case "set-static", "set-fail":
			in := &wInner{id: id, own: "Stamp", failVal: op.K == "set-fail", invalid: op.Str == "invalid", unset: op.Str == "unset" && op.K == "set-static"}
			var src dials.Source = in
			if (r.sc.Wrap.Kind == "blank-twatch" || len(names) > 0) && r.sc.Wrap.Kind != "blank-inside-t" {
				src = wrapT(r.sc.Wrap, in)
			}
			sctx, scancel := callCtx(op)
			err := blank.SetSource(sctx, src)
			scancel()
			if r.releasedMeanwhile(err) {
				return
			}
			switch {
			case r.state == "watching":
				r.probes["replace-watching-refused"]++
				if err == nil {
					r.fail("C20.blank", "SetSource replaced a watching inner source")
				}
			case op.K == "set-fail":
				if err == nil || !errors.Is(err, errInner) {
					r.fail("C20.error-swallowed", "SetSource of a failing source returned %v", err)
				}
			case op.Str == "invalid":
				r.probes["setsource-rejected-by-verify"]++
				if err == nil || !errors.Is(err, errVerify) {
					r.fail("C20.error-swallowed", "SetSource of a source whose value Verify rejects returned %v", err)
				}
				blankInner = nil // (which inner source Value delegates to after a rejected SetSource is not asserted)
				if err != nil && errors.Is(err, errVerify) {
					mirrorInvalid(id, true)
				}
			case err != nil:
				r.fail("C20.blank", "SetSource(static) failed in state %s: %v", r.state, err)
			default:
				if r.state == "static" {
					r.probes["static-replaced-by-static"]++
				}
				r.state = "static"
				blankInner = in
				if in.unset {
					r.probes["setsource-of-a-source-that-sets-nothing"]++
					mirrorUnset(id, true)
					if got := r.W.View().Stamp; got != 0 {
						r.fail("C20.blank", "SetSource of a source that sets nothing returned nil but the view still holds the previous source's value (stamp %d)", got)
					}
					continue
				}
				mirror(id, true)
				if got := r.W.View().Stamp; got != id {
					r.fail("C20.blank", "SetSource returned nil but the view holds stamp %d, not %d", got, id)
				}
			}
		case "set-watch-fail":
			// a watching source whose Value fails: nothing is installed, the Blank
			// keeps its slot and its previous inner source
			iw := &wInnerWatch{wInner: wInner{id: id, own: "Stamp", failVal: true}}
			var src dials.Source = iw
			if len(names) > 0 && r.sc.Wrap.Kind != "blank-inside-t" {
				src = wrapT(r.sc.Wrap, iw)
			}
			sctx, scancel := callCtx(op)
			err := blank.SetSource(sctx, src)
			scancel()
			if r.releasedMeanwhile(err) {
				return
			}
			r.probes["setsource-watching-value-fails"]++
			switch {
			case r.state == "watching":
				if err == nil {
					r.fail("C20.blank", "SetSource replaced a watching inner source")
				}
			case err == nil || !errors.Is(err, errInner):
				r.fail("C20.error-swallowed", "SetSource of a watching source whose Value fails returned %v", err)
			}
			if iw.wa != nil {
				r.fail("C20.blank", "Watch was called on a source whose Value had failed")
			}
		case "set-watch", "set-watch-eager":
			iw := &wInnerWatch{wInner: wInner{id: id, own: "Stamp", invalid: op.Str == "invalid" && op.K == "set-watch"}}
			if op.K == "set-watch-eager" {
				iw.eager = id + 1<<33
			}
			var src dials.Source = iw
			if (r.sc.Wrap.Kind == "blank-twatch" || len(names) > 0) && r.sc.Wrap.Kind != "blank-inside-t" {
				src = wrapT(r.sc.Wrap, iw)
			}
			sctx, scancel := callCtx(op)
			err := blank.SetSource(sctx, src)
			scancel()
			if r.releasedMeanwhile(err) {
				return
			}
			if err == nil {
				r.watchers = append(r.watchers, iw)
			}
			if r.state == "watching" {
				r.probes["replace-watching-refused"]++
				if err == nil {
					r.fail("C20.blank", "SetSource replaced a watching inner source")
				}
				continue
			}
			if iw.invalid {
				// its first value is rejected: the error comes back, the watcher is
				// never started, the Blank keeps its slot
				r.probes["setsource-watching-rejected-by-verify"]++
				if err == nil || !errors.Is(err, errVerify) {
					r.fail("C20.error-swallowed", "SetSource of a watching source whose value Verify rejects returned %v", err)
				}
				if iw.wa != nil {
					r.fail("C20.blank", "Watch was called on a source whose first value had been rejected")
				}
				blankInner = nil
				if err != nil && errors.Is(err, errVerify) {
					mirrorInvalid(id, true)
				}
				continue
			}
			if err != nil {
				r.fail("C20.blank", "SetSource(watching) failed in state %s: %v", r.state, err)
				continue
			}
			r.state = "watching"
			inner = iw
			blankInner = &iw.wInner
			mirror(id, true)
			if iw.eager != 0 {
				// natively the value from Value() is applied first and the watcher's
				// own report afterwards: the newer one must win
				r.probes["watcher-reports-inside-Watch"]++
				if iw.eagerErr != nil {
					r.fail("C20.update", "report from inside Watch failed: %v", iw.eagerErr)
				}
				mirror(iw.eager, false)
				r.expectStamp = iw.eager
			}
		case "bvalue":
			// Blank.Value delegates to the most recently set inner source
			if blankInner == nil {
				continue
			}
			before := blankInner.vals
			skipInnerType = true // (a type of the harness's own, not the config's)
			if _, err := blank.Value(r.ctx, dials.NewType(reflect.TypeOf(struct{ Stamp *uint64 }{}))); err != nil && r.state != "empty" {
				_ = err
			}
			skipInnerType = false
			if blankInner.vals == before {
				r.fail("C20.blank", "Blank.Value did not delegate to the most recently set inner source (state %s)", r.state)
			}
			r.probes["blank-value-delegated"]++
		case "bdone":
			{
				// (with the slot already released by somebody else and the
				// monitor gone, a second Done waits for its context)
				dctx, dcancel := context.WithTimeout(r.ctx, time.Hour)
				blank.Done(dctx)
				dcancel()
			}
			if r.state == "watching" {
				r.probes["done-after-watching-is-noop"]++
				// must be a no-op: a later report is still installed
				if inner != nil && inner.wa != nil {
					nid := id + 1<<32
					v := innerValue(inner.typ, nid, "Stamp", false)
					ctx, cancel := context.WithTimeout(r.ctx, time.Hour)
					err := inner.wa.BlockingReportNewValue(ctx, v)
					cancel()
					if err != nil {
						r.fail("C20.blank", "after Blank.Done on a Blank that holds a watching source, that source's report failed: %v", err)
					} else {
						mirror(nid, true)
					}
				}
				continue
			}
			r.probes["done-releases-slot"]++
			// the slot is released: with no other watcher the monitor exits
			if r.sc.Wrap.Kind == "blank-only" {
				r.expectMonitorGone = true
			}
			return
		}
	}
}
