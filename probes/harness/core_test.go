package harness

import (
	"context"
	"fmt"
	"os"
	"reflect"
	"strconv"
	"testing"
	"testing/synctest"
	"time"

	"simrt"

	"github.com/vimeo/dials"
)

type cfg struct {
	A, B int
	Bad  bool
}

func (c *cfg) Verify() error {
	if c.Bad {
		return fmt.Errorf("bad")
	}
	return nil
}

type wsrc struct {
	wa dials.WatchArgs
	t  *dials.Type
}

func (w *wsrc) Value(ctx context.Context, t *dials.Type) (reflect.Value, error) {
	return reflect.New(t.Type()), nil
}
func (w *wsrc) Watch(ctx context.Context, t *dials.Type, wa dials.WatchArgs) error {
	w.wa = wa
	w.t = t
	return nil
}

// runCore: two watching sources, blocking and non-blocking reporters, a
// rejecting Verify, a registrar that unregisters after both sources are Done
// (this is where the unchanged tree panics with "send on closed channel").
func runCore(seed int64) (uint64, int, string) {
	var s *simrt.Sim
	var res string
	func() {
		defer func() { recover() }()
		synctest.Test(&testing.T{}, func(t *testing.T) {
			s = simrt.New(seed)
			ctx, cancel := context.WithCancel(context.Background())
			ws := []*wsrc{{}, {}}
			ncb := 0
			p := dials.Params[cfg]{OnNewConfig: func(ctx context.Context, o, n *cfg) { ncb++ }, OnWatchedError: func(ctx context.Context, err error, o, n *cfg) { ncb++ }}
			var d *dials.Dials[cfg]
			fin, total, panics := 0, 0, 0
			defer func() { res += fmt.Sprintf("/panics=%d/cb=%d", panics, ncb) }()
			spawn := func(name string, f func()) {
				total++
				go func() {
					s.Name(name)
					simrt.Yield("start")
					func() {
						defer func() {
							if r := recover(); r != nil {
								panics++
							}
						}()
						f()
					}()
					fin++
				}()
			}
			spawn("cfg", func() {
				var err error
				d, err = p.Config(ctx, &cfg{A: 1}, ws[0], ws[1])
				if err != nil {
					panic(err)
				}
				for c := 0; c < 2; c++ {
					c := c
					spawn("rep"+strconv.Itoa(c), func() {
						for i := 0; i < 4; i++ {
							v := reflect.New(ws[c].t.Type())
							x := c*100 + i
							v.Elem().Field(c).Set(reflect.ValueOf(&x))
							bad := (seed+int64(i))%3 == 0
							v.Elem().Field(2).Set(reflect.ValueOf(&bad))
							cctx, ccancel := context.WithTimeout(ctx, time.Second)
							if i%2 == 0 {
								ws[c].wa.BlockingReportNewValue(cctx, v)
							} else {
								ws[c].wa.ReportNewValue(cctx, v)
							}
							ccancel()
							simrt.Yield("after-report")
							_ = d.View().A
						}
						ws[c].wa.Done(ctx)
					})
				}
				spawn("reg", func() {
					_, ser := d.ViewVersion()
					unreg := d.RegisterCallback(ctx, ser, func(ctx context.Context, o, n *cfg) { ncb++ })
					time.Sleep(time.Millisecond)
					simrt.Yield("slept")
					if unreg != nil {
						cc, c2 := context.WithTimeout(ctx, time.Second)
						unreg(cc)
						c2()
					}
				})
			})
			res = s.Run(100000, func() bool { return fin == total })
			cancel()
			res += "/" + s.Run(1000, func() bool { return true })
		})
	}()
	return s.Hash, s.Steps, res
}

func TestCoreDet(t *testing.T) {
	n := 300
	if v := os.Getenv("N"); v != "" {
		n, _ = strconv.Atoi(v)
	}
	st := time.Now()
	steps := 0
	for i := 0; i < n; i++ {
		h, k, r := runCore(int64(i))
		steps += k
		fmt.Printf("seed=%d hash=%x steps=%d res=%s\n", i, h, k, r)
	}
	fmt.Fprintf(os.Stderr, "%d runs %d steps in %v\n", n, steps, time.Since(st))
}
