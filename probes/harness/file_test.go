package harness

import (
	"context"
	"fmt"
	"math/rand"
	"os"
	"path/filepath"
	"strconv"
	"testing"
	"testing/synctest"
	"time"

	"simrt"

	"github.com/vimeo/dials"
	"github.com/vimeo/dials/decoders/json"
	"github.com/vimeo/dials/sources/file"
)

type FC struct {
	Stamp int
	Bad   bool
}

func (c *FC) Verify() error {
	if c.Bad {
		return fmt.Errorf("bad")
	}
	return nil
}

func runFile(seed int64) (hash uint64, steps int, res string) {
	dir, _ := os.MkdirTemp("/dev/shm", "simrun")
	defer os.RemoveAll(dir)
	var s *simrt.Sim
	func() {
		defer func() {
			if r := recover(); r != nil {
				res += fmt.Sprintf("/PANIC %v", r)
			}
		}()
		synctest.Test(&testing.T{}, func(t *testing.T) {
			s = simrt.New(seed)
			wr := rand.New(rand.NewSource(seed ^ 0x5eed))
			ctx, cancel := context.WithCancel(context.Background())
			p := filepath.Join(dir, "c.json")
			os.WriteFile(p, []byte(`{"Stamp":1}`), 0644)
			opts := []file.WatchOpt{}
			if wr.Intn(3) == 0 {
				opts = append(opts, file.WithPollInterval(time.Minute))
			}
			ws, _ := file.NewWatchingSource(p, &json.Decoder{}, opts...)
			nerr := 0
			var d *dials.Dials[FC]
			fin, total := 0, 0
			final := 1
			finalOK := true
			spawn := func(name string, f func()) {
				total++
				go func() {
					s.Name(name)
					simrt.Yield("start")
					f()
					fin++
				}()
			}
			spawn("main", func() {
				var err error
				d, err = dials.Params[FC]{OnWatchedError: func(ctx context.Context, err error, o, n *FC) { nerr++ }}.Config(ctx, &FC{}, ws)
				if err != nil {
					panic(err)
				}
				spawn("writer", func() {
					nops := 1 + wr.Intn(5)
					for i := 0; i < nops; i++ {
						stamp := 10 + i
						content := fmt.Sprintf(`{"Stamp":%d}`, stamp)
						kind := wr.Intn(6)
						ok := true
						switch wr.Intn(5) {
						case 0:
							content = `{"Stamp":` // malformed
							ok = false
						case 1:
							content = fmt.Sprintf(`{"Stamp":%d,"Bad":true}`, stamp)
							ok = false
						}
						switch kind {
						case 0: // in-place, multi-step
							f, _ := os.OpenFile(p, os.O_WRONLY|os.O_TRUNC|os.O_CREATE, 0644)
							simrt.Yield("w.trunc")
							h := len(content) / 2
							f.WriteString(content[:h])
							simrt.Yield("w.half")
							f.WriteString(content[h:])
							simrt.Yield("w.full")
							f.Close()
						case 1, 2: // rename over
							os.WriteFile(p+".tmp", []byte(content), 0644)
							simrt.Yield("w.tmp")
							os.Rename(p+".tmp", p)
						case 3: // delete + recreate
							os.Remove(p)
							if wr.Intn(2) == 0 {
								simrt.Yield("w.deleted")
							}
							os.WriteFile(p, []byte(content), 0644)
						case 4: // identical rewrite via rename
							b, _ := os.ReadFile(p)
							os.WriteFile(p+".tmp", b, 0644)
							os.Rename(p+".tmp", p)
							simrt.Yield("w.same")
							continue
						case 5:
							os.WriteFile(p, []byte(content), 0644)
						}
						if ok {
							final = stamp
						}
						finalOK = ok
						simrt.Yield("w.op")
						if wr.Intn(3) == 0 {
							time.Sleep(time.Duration(wr.Intn(1000)) * time.Millisecond)
							simrt.Yield("w.slept")
						}
					}
				})
			})
			res = s.Run(200000, func() bool { return fin == total })
			s.Until = time.Now().Add(5 * time.Minute)
			r2 := s.Run(200000, func() bool { return false }) // settle to quiescence
			got := d.View().Stamp
			res += "/" + r2 + fmt.Sprintf("/view=%d want=%d finalOK=%v nerr=%d", got, final, finalOK, nerr)
			if finalOK && got != final {
				res += "/NONCONVERGED"
			}
			cancel()
			s.Until = time.Now().Add(5 * time.Minute)
			res += "/" + s.Run(10000, func() bool { return false })
			res += fmt.Sprintf("/exited=%d", s.Exited)
		})
	}()
	return s.Hash, s.Steps, res
}

func TestFileDet(t *testing.T) {
	n := 200
	if v := os.Getenv("N"); v != "" {
		n, _ = strconv.Atoi(v)
	}
	st := time.Now()
	steps := 0
	for i := 0; i < n; i++ {
		h, k, r := runFile(int64(i))
		steps += k
		fmt.Printf("seed=%d hash=%x steps=%d res=%s\n", i, h, k, r)
	}
	fmt.Fprintf(os.Stderr, "%d runs %d steps in %v\n", n, steps, time.Since(st))
}
