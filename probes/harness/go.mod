module harness

go 1.26.8

require (
	github.com/fsnotify/fsnotify v1.8.0
	github.com/vimeo/dials v0.0.0
	simrt v0.0.0
)

require (
	github.com/fatih/structtag v1.2.0 // indirect
	golang.org/x/sys v0.26.0 // indirect
	golang.org/x/text v0.19.0 // indirect
)

replace github.com/vimeo/dials => /dev/shm/pr/dials

replace simrt => /dev/shm/pr/simrt

replace github.com/fsnotify/fsnotify => /dev/shm/pr/simfsn
