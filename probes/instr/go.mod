module instr

go 1.26.8
