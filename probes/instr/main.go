package main

import (
	"bytes"
	"fmt"
	"go/ast"
	"go/format"
	"go/parser"
	"go/token"
	"os"
	"path/filepath"
	"strconv"
	"strings"
)

var fset = token.NewFileSet()

func yield(pos token.Pos, kind string) ast.Stmt {
	p := fset.Position(pos)
	lbl := fmt.Sprintf("%s:%d %s", filepath.Base(p.Filename), p.Line, kind)
	return &ast.ExprStmt{X: &ast.CallExpr{
		Fun:  &ast.SelectorExpr{X: ast.NewIdent("simrt"), Sel: ast.NewIdent("Yield")},
		Args: []ast.Expr{&ast.BasicLit{Kind: token.STRING, Value: strconv.Quote(lbl)}},
	}}
}

func scan(e ast.Node, f func(ast.Node) bool) bool {
	found := false
	ast.Inspect(e, func(n ast.Node) bool {
		if _, ok := n.(*ast.FuncLit); ok {
			return false
		}
		if n != nil && f(n) {
			found = true
		}
		return true
	})
	return found
}

func hasRecv(e ast.Node) bool {
	return scan(e, func(n ast.Node) bool { u, ok := n.(*ast.UnaryExpr); return ok && u.Op == token.ARROW })
}
func isAtomicish(e ast.Node) bool {
	return scan(e, func(n ast.Node) bool {
		c, ok := n.(*ast.CallExpr)
		if !ok {
			return false
		}
		if s, ok := c.Fun.(*ast.SelectorExpr); ok {
			switch s.Sel.Name {
			case "Store", "Load", "Swap", "CompareAndSwap":
				return true
			}
		}
		if id, ok := c.Fun.(*ast.Ident); ok && id.Name == "close" {
			return true
		}
		return false
	})
}

func syncStmt(s ast.Stmt) (string, bool) {
	switch st := s.(type) {
	case *ast.SendStmt:
		return "send", true
	case *ast.ExprStmt:
		if hasRecv(st.X) {
			return "recv", true
		}
		if isAtomicish(st.X) {
			return "atomic", true
		}
	case *ast.AssignStmt:
		for _, r := range st.Rhs {
			if hasRecv(r) {
				return "recv", true
			}
			if isAtomicish(r) {
				return "atomic", true
			}
		}
	case *ast.SelectStmt:
		return "select", true
	case *ast.GoStmt:
		return "go", true
	}
	return "", false
}

func rewriteList(list []ast.Stmt) []ast.Stmt {
	var out []ast.Stmt
	for _, s := range list {
		rewriteStmt(s)
		inner := s
		if l, ok := s.(*ast.LabeledStmt); ok {
			inner = l.Stmt
		}
		if r, ok := inner.(*ast.RangeStmt); ok {
			if se, ok := r.X.(*ast.SelectorExpr); ok && se.Sel.Name == "ch" {
				out = append(out, yield(s.Pos(), "range-pre"))
				r.Body.List = append([]ast.Stmt{yield(r.Body.Pos(), "range-body")}, r.Body.List...)
			}
		}
		if kind, ok := syncStmt(inner); ok {
			if kind != "go" {
				out = append(out, yield(s.Pos(), kind+"-pre"))
			}
			out = append(out, s)
			if kind != "select" {
				out = append(out, yield(s.End(), kind+"-post"))
			}
			continue
		}
		out = append(out, s)
	}
	return out
}

func rewriteStmt(s ast.Stmt) {
	switch st := s.(type) {
	case *ast.BlockStmt:
		st.List = rewriteList(st.List)
	case *ast.LabeledStmt:
		rewriteStmt(st.Stmt)
	case *ast.IfStmt:
		rewriteStmt(st.Body)
		if st.Else != nil {
			rewriteStmt(st.Else)
		}
	case *ast.ForStmt:
		rewriteStmt(st.Body)
	case *ast.RangeStmt:
		rewriteStmt(st.Body)
	case *ast.SwitchStmt:
		rewriteStmt(st.Body)
	case *ast.TypeSwitchStmt:
		rewriteStmt(st.Body)
	case *ast.CaseClause:
		st.Body = rewriteList(st.Body)
	case *ast.SelectStmt:
		for _, c := range st.Body.List {
			cc := c.(*ast.CommClause)
			cc.Body = rewriteList(cc.Body)
			cc.Body = append([]ast.Stmt{yield(cc.Pos(), "clause")}, cc.Body...)
		}
	case *ast.GoStmt:
		if fl, ok := st.Call.Fun.(*ast.FuncLit); ok {
			fl.Body.List = rewriteList(fl.Body.List)
			instrumentEntry(fl.Body, fl.Pos())
		}
	}
}

func instrumentEntry(b *ast.BlockStmt, pos token.Pos) {
	entry := []ast.Stmt{
		yield(pos, "entry"),
		&ast.DeferStmt{Call: &ast.CallExpr{Fun: &ast.SelectorExpr{X: ast.NewIdent("simrt"), Sel: ast.NewIdent("TaskExit")}}},
	}
	b.List = append(entry, b.List...)
}

func main() {
	base := os.Args[1]
	for _, dir := range os.Args[2:] {
		pkgs, err := parser.ParseDir(fset, filepath.Join(base, dir), func(fi os.FileInfo) bool {
			return !strings.HasSuffix(fi.Name(), "_test.go") && fi.Name() != "dials_118.go"
		}, 0)
		if err != nil {
			panic(err)
		}
		for _, pkg := range pkgs {
			goTargets := map[string]bool{}
			for _, f := range pkg.Files {
				ast.Inspect(f, func(n ast.Node) bool {
					if g, ok := n.(*ast.GoStmt); ok {
						switch fn := g.Call.Fun.(type) {
						case *ast.SelectorExpr:
							goTargets[fn.Sel.Name] = true
						case *ast.Ident:
							goTargets[fn.Name] = true
						}
					}
					return true
				})
			}
			for name, f := range pkg.Files {
				for _, d := range f.Decls {
					fd, ok := d.(*ast.FuncDecl)
					if !ok || fd.Body == nil {
						continue
					}
					fd.Body.List = rewriteList(fd.Body.List)
					if goTargets[fd.Name.Name] {
						instrumentEntry(fd.Body, fd.Pos())
					}
				}
				var buf bytes.Buffer
				if err := format.Node(&buf, fset, f); err != nil {
					panic(err)
				}
				src := buf.String()
				i := strings.Index(src, "package ")
				j := i + strings.Index(src[i:], "\n")
				src = src[:j] + "\nimport \"simrt\"\n" + src[j:] + "\nvar _ = simrt.Yield\n"
				if name == filepath.Join(base, dir, "dials_119.go") {
					src = "//go:build go1.19\n\n" + src
				}
				if err := os.WriteFile(name, []byte(src), 0644); err != nil {
					panic(err)
				}
			}
		}
	}
}
