#!/bin/sh
set -e
export GOFLAGS=-mod=mod GOPROXY=off GOSUMDB=off GOTOOLCHAIN=local
P=/dev/shm/pr; H=$(dirname "$(readlink -f "$0")")
rm -rf $P; mkdir -p $P/simfsn/internal
rsync -a --exclude .git /repo/ $P/dials/
cp -r $H/instr $H/simrt $H/harness $P/
SRC=/root/go/pkg/mod/github.com/fsnotify/fsnotify@v1.8.0
cp $SRC/fsnotify.go $SRC/backend_inotify.go $P/simfsn/
cp $SRC/internal/internal.go $SRC/internal/unix.go $SRC/internal/unix2.go $SRC/internal/debug_linux.go $P/simfsn/internal/
chmod -R u+w $P/simfsn
(cd $P/simfsn && patch -s backend_inotify.go < $H/simfsn.patch)
printf 'module github.com/fsnotify/fsnotify\n\ngo 1.26.8\n\nrequire (\n\tgolang.org/x/sys v0.26.0\n\tsimrt v0.0.0\n)\n' > $P/simfsn/go.mod
cp /repo/go.sum $P/harness/
(cd $P/instr && go1.26.8 run . $P/dials . sources/file)
(cd $P/harness && go1.26.8 test -c -o $P/f.test .)
cd $P
for p in 1 16; do for r in 1 2; do N=${N:-200} GOMAXPROCS=$p ./f.test -test.run TestFileDet -test.timeout 300s > fo.$p.$r 2>/dev/null; done; done
md5sum fo.*.*
for p in 1 4 16; do for r in 1 2; do N=${N:-200} GOMAXPROCS=$p ./f.test -test.run TestCoreDet -test.timeout 300s > co.$p.$r 2>/dev/null; done; done
md5sum co.*.*
echo "core runs where a client API call panicked (C08 defect on the unchanged tree): $(grep -c 'panics=1' co.1.1 || true)"
echo "non-converged: $(grep -c NONCONV fo.1.1 || true)"
rm -rf $P
