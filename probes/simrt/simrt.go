package simrt

import (
	"bytes"
	"fmt"
	"hash/fnv"
	"math/rand"
	"runtime"
	"sort"
	"strconv"
	"sync"
	"testing/synctest"
	"time"

	"golang.org/x/sys/unix"
)

func goid() uint64 {
	var b [64]byte
	n := runtime.Stack(b[:], false)
	f := bytes.Fields(b[:n])
	id, _ := strconv.ParseUint(string(f[1]), 10, 64)
	return id
}

type task struct {
	name  string
	gate  chan struct{}
	label string
	pred  func() bool
}

type Sim struct {
	mu      sync.Mutex
	parked  map[uint64]*task
	names   map[uint64]string
	wake    chan struct{}
	rng     *rand.Rand
	Hash    uint64
	Steps   int
	nseq    map[string]int
	root    uint64
	Exited  int
	Log     []string
	KeepLog bool
	AfterStep func()
	Until time.Time
}

var cur *Sim

func New(seed int64) *Sim {
	s := &Sim{parked: map[uint64]*task{}, names: map[uint64]string{}, wake: make(chan struct{}, 1), rng: rand.New(rand.NewSource(seed)), nseq: map[string]int{}, root: goid()}
	cur = s
	return s
}

func TaskExit() {
	s := cur
	if s == nil {
		return
	}
	s.mu.Lock()
	s.Exited++
	s.mu.Unlock()
}

func Readable(fd int) bool {
	n, err := unix.IoctlGetInt(fd, 0x541B)
	return err == nil && n > 0
}

func BatchSize(max int) int {
	s := cur
	if s == nil {
		return max
	}
	// at least one event with max name
	opts := []int{unix.SizeofInotifyEvent + unix.NAME_MAX + 1, 1024, max}
	return opts[s.rng.Intn(len(opts))]
}

func Yield(label string) { YieldWhen(label, nil) }

func YieldWhen(label string, pred func() bool) {
	s := cur
	if s == nil {
		return
	}
	id := goid()
	if id == s.root {
		return
	}
	s.mu.Lock()
	name, ok := s.names[id]
	if !ok {
		s.nseq[label]++
		name = fmt.Sprintf("%s#%d", label, s.nseq[label])
		s.names[id] = name
	}
	t := &task{name: name, gate: make(chan struct{}), label: label, pred: pred}
	s.parked[id] = t
	s.mu.Unlock()
	select {
	case s.wake <- struct{}{}:
	default:
	}
	<-t.gate
}

func (s *Sim) Name(n string) {
	id := goid()
	s.mu.Lock()
	s.names[id] = n
	s.mu.Unlock()
}

func (s *Sim) Run(maxSteps int, done func() bool) string {
	for i := 0; i < maxSteps; i++ {
		synctest.Wait()
		if !s.Until.IsZero() && time.Now().After(s.Until) {
			return "horizon"
		}
		if s.AfterStep != nil {
			s.AfterStep()
		}
		s.mu.Lock()
		var ids []uint64
		for id, t := range s.parked {
			if t.pred == nil || t.pred() {
				ids = append(ids, id)
			}
		}
		sort.Slice(ids, func(a, b int) bool { return s.parked[ids[a]].name < s.parked[ids[b]].name })
		if len(ids) == 0 {
			s.mu.Unlock()
			if done() {
				return "done"
			}
			select {
			case <-s.wake:
			case <-time.After(time.Hour):
				return "quiescent"
			}
			continue
		}
		k := s.rng.Intn(len(ids))
		t := s.parked[ids[k]]
		delete(s.parked, ids[k])
		s.mu.Unlock()
		h := fnv.New64a()
		fmt.Fprintf(h, "%x|%s|%s|%d/%d", s.Hash, t.name, t.label, k, len(ids))
		s.Hash = h.Sum64()
		s.Steps++
		if s.KeepLog {
			s.Log = append(s.Log, fmt.Sprintf("%s@%s %d/%d", t.name, t.label, k, len(ids)))
		}
		close(t.gate)
	}
	return "stepcap"
}
