"""Self-tests of the simulator: determinism and sensitivity (DESIGN §7).

  check selftest mutants [name-substring ...]   every patch under /verif/mutants must be caught by its property's check
  check selftest determinism [PROP ...]         same seeds, fresh processes, GOMAXPROCS 1/4/16: identical traces
  check selftest benign [name-substring ...]    every patch under /verif/benign keeps every property: no check may report it
"""
import glob, json, os, subprocess, sys, time

VERIF = os.path.dirname(os.path.realpath(__file__))

# mutant -> property whose quick tier must catch it
EXPECT = {
    "c02-": "C02", "c04-": "C04", "c05-": "C05", "c06-": "C06", "c07-": "C07", "c08-": "C08", "c09-": "C09",
    "c13-": "C13", "c17-": "C17", "c18-": "C18", "c20-": "C20",
    "revert-38f3f7f": "C08", "revert-d8d7ffe": "C09", "revert-9edf10c": "C08", "revert-67eafdc": "C09", "revert-13610b4": "C08", "revert-0b70d9d": "C20", "revert-42168dd": "C20", "revert-c5afabb": "C17", "revert-26acc51": "C18", "revert-8d348d6": "C17", "revert-01c47c2": "C17", "revert-2c60732": "C13", "revert-7e8bb59": "C17", "revert-3b30ae0": "C13", "revert-a34dec2": "C08", "revert-756215a": "C13", "revert-ca309e5": "C17",
}


def merge(path, results, key, full):
    """A full run replaces the recorded results; a partial run updates the entries it re-ran."""
    old = []
    if not full and os.path.exists(path):
        old = json.load(open(path))
    k = lambda r: tuple(r[x] for x in key)
    new = {k(r): r for r in results}
    out = [new.pop(k(r), r) for r in old] + list(new.values())
    out.sort(key=k)
    json.dump(out, open(path, "w"), indent=1)


def prop_for(name):
    for k, v in EXPECT.items():
        if name.startswith(k):
            return v
    return None


def mutants(args):
    runs = os.environ.get("SELFTEST_RUNS", "20000")
    results = []
    for p in sorted(glob.glob(os.path.join(VERIF, "mutants", "*.diff"))):
        name = os.path.basename(p)[:-5]
        if args and not any(a in name for a in args):
            continue
        prop = prop_for(name)
        if not prop:
            continue
        t0 = time.time()
        r = subprocess.run([os.path.join(VERIF, "check"), prop, "--patch", p, "--runs", runs, "--min-budget", "20", "--no-evidence"],
                           stdout=subprocess.PIPE, stderr=subprocess.STDOUT, text=True)
        oracle, first = "", ""
        for l in r.stdout.splitlines():
            if l.startswith("violated oracle:"):
                oracle = l.split(":", 1)[1].strip()
            if l.startswith("VIOLATION"):
                first = l
        status = {0: "SURVIVED", 1: "caught", 2: "TROUBLE"}.get(r.returncode, "rc=%d" % r.returncode)
        run_idx = ""
        if first:
            try:
                rf = json.load(open(first.split("replay=")[1]))
                run_idx = "run %d, minimised to %d ops / %d clients" % (rf["run"], rf["minimised"]["ops"], rf["minimised"]["clients"])
                os.remove(first.split("replay=")[1])
            except Exception:
                pass
        print("%-45s %s %-9s %-28s %s (%.0fs)" % (name, prop, status, oracle, run_idx, time.time() - t0), flush=True)
        if status == "TROUBLE":
            print("   " + "\n   ".join(r.stdout.splitlines()[-6:]))
        results.append({"mutant": name, "property": prop, "status": status, "oracle": oracle, "detail": run_idx})
    os.makedirs(os.path.join(VERIF, "selftest"), exist_ok=True)
    merge(os.path.join(VERIF, "selftest", "mutants.json"), results, ("mutant",), full=not args)
    bad = [x for x in results if x["status"] != "caught"]
    print("%d/%d caught" % (len(results) - len(bad), len(results)))
    return 1 if bad else 0


def benign(args):
    """Property-preserving changes (different constants, extra copies, extra reads, another legal order):
    the quick tier of every claimed property must stay silent on each of them."""
    runs = os.environ.get("SELFTEST_RUNS", "20000")
    props = os.environ.get("SELFTEST_PROPS", "C02 C04 C05 C06 C07 C08 C09 C13 C17 C18 C20").split()
    results = []
    for p in sorted(glob.glob(os.path.join(VERIF, "benign", "*.diff"))):
        name = os.path.basename(p)[:-5]
        if args and not any(a in name for a in args):
            continue
        touched = open(p).read()
        for prop in props:
            if prop == "C13" and "decoders/" not in touched and "transform" not in touched and "tagformat" not in touched:
                continue  # the decoder check runs none of the code the change touches
            t0 = time.time()
            r = subprocess.run([os.path.join(VERIF, "check"), prop, "--patch", p, "--runs", runs, "--no-evidence"],
                               stdout=subprocess.PIPE, stderr=subprocess.STDOUT, text=True)
            status = {0: "silent", 1: "FALSE-ALARM", 2: "TROUBLE"}.get(r.returncode, "rc=%d" % r.returncode)
            oracle = ""
            for l in r.stdout.splitlines():
                if l.startswith("violated oracle:"):
                    oracle = l.split(":", 1)[1].strip()
            print("%-45s %s %-11s %s (%.0fs)" % (name, prop, status, oracle, time.time() - t0), flush=True)
            if status != "silent":
                print("   " + "\n   ".join(r.stdout.splitlines()[-8:]))
            results.append({"variant": name, "property": prop, "status": status, "oracle": oracle})
    merge(os.path.join(VERIF, "selftest", "benign.json"), results, ("variant", "property"), full=not args and "SELFTEST_PROPS" not in os.environ)
    bad = [x for x in results if x["status"] != "silent"]
    print("%d/%d silent" % (len(results) - len(bad), len(results)))
    return 1 if bad else 0


def determinism(args):
    sys.path.insert(0, VERIF)
    import importlib.machinery, importlib.util
    loader = importlib.machinery.SourceFileLoader("checkmod", os.path.join(VERIF, "check"))
    spec = importlib.util.spec_from_loader("checkmod", loader)
    chk = importlib.util.module_from_spec(spec)
    loader.exec_module(chk)
    props = args or chk.CLAIMED
    sc = chk.Scratch("det")
    sc.build()
    n = int(os.environ.get("SELFTEST_RUNS", "300"))
    ok = True
    for prop in props:
        outs = {}
        procs = []
        for gmp in ("1", "4", "16"):
            for rep in range(3):
                out = os.path.join(sc.dir, "det.%s.%s.%d" % (prop, gmp, rep))
                f = open(out, "w")
                p = subprocess.Popen([sc.bin, "-prop", prop, "-seed", "12345", "-from", "0", "-n", str(n), "-trace"],
                                     stdout=f, stderr=subprocess.STDOUT, env=dict(chk.ENV, GOMAXPROCS=gmp), cwd=sc.dir)
                procs.append((p, out, f))
        for p, out, f in procs:
            p.wait()
            f.close()
            lines = [l for l in open(out) if l.startswith("H ")]
            outs[out] = lines
        ref = None
        same = True
        for k, v in outs.items():
            if ref is None:
                ref = v
            elif v != ref:
                same = False
                for a, b in zip(ref, v):
                    if a != b:
                        print("  first divergence: %s vs %s" % (a.strip(), b.strip()))
                        break
        print("%s: %d runs x 9 processes (GOMAXPROCS 1,4,16 x 3): %s" % (prop, len(ref or []), "identical traces" if same and ref else "DIVERGED"), flush=True)
        ok = ok and same and bool(ref)
    return 0 if ok else 2


def main(argv):
    if not argv:
        print(__doc__)
        return 2
    if argv[0] == "mutants":
        return mutants(argv[1:])
    if argv[0] == "benign":
        return benign(argv[1:])
    if argv[0] == "determinism":
        return determinism(argv[1:])
    print(__doc__)
    return 2
