#!/bin/sh
# Builds everything the checks need from files on disk only (offline) and warms
# the Go build cache: instrumenter, instrumented scratch copy of /repo, harness.
set -e
cd "$(dirname "$0")"
export GOFLAGS=-mod=mod GOPROXY=off GOSUMDB=off GOTOOLCHAIN=local
exec ./check C05 --runs 400
