//go:build linux && !appengine

package fsnotify

import (
	"errors"
	"fmt"
	"io"
	"io/fs"
	"os"
	"path/filepath"
	"strings"
	"sync"
	"time"
	"unsafe"

	"github.com/fsnotify/fsnotify/internal"
	"golang.org/x/sys/unix"
	"simrt"
)

type inotify struct {
	Events chan Event
	Errors chan error

	// Store fd here as os.File.Read() will no longer return on close after
	// calling Fd(). See: https://github.com/golang/go/issues/26439
	fd          int
	inotifyFile *os.File
	watches     *watches
	done        chan struct{} // Channel for sending a "quit message" to the reader goroutine
	doneMu      sync.Mutex
	doneResp    chan struct{} // Channel to respond to Close

	// Store rename cookies in an array, with the index wrapping to 0. Almost
	// all of the time what we get is a MOVED_FROM to set the cookie and the
	// next event inotify sends will be MOVED_TO to read it. However, this is
	// not guaranteed – as described in inotify(7) – and we may get other events
	// between the two MOVED_* events (including other MOVED_* ones).
	//
	// A second issue is that moving a file outside the watched directory will
	// trigger a MOVED_FROM to set the cookie, but we never see the MOVED_TO to
	// read and delete it. So just storing it in a map would slowly leak memory.
	//
	// Doing it like this gives us a simple fast LRU-cache that won't allocate.
	// Ten items should be more than enough for our purpose, and a loop over
	// such a short array is faster than a map access anyway (not that it hugely
	// matters since we're talking about hundreds of ns at the most, but still).
	cookies     [10]koekje
	cookieIndex uint8
	cookiesMu   sync.Mutex
}

type (
	watches struct {
		mu   sync.RWMutex
		wd   map[uint32]*watch // wd → watch
		path map[string]uint32 // pathname → wd
	}
	watch struct {
		wd      uint32 // Watch descriptor (as returned by the inotify_add_watch() syscall)
		flags   uint32 // inotify flags of this watch (see inotify(7) for the list of valid flags)
		path    string // Watch path.
		recurse bool   // Recursion with ./...?
	}
	koekje struct {
		cookie uint32
		path   string
	}
)

func newWatches() *watches {
	return &watches{
		wd:   make(map[uint32]*watch),
		path: make(map[string]uint32),
	}
}

func (w *watches) len() int {
	w.mu.RLock()
	defer w.mu.RUnlock()
	return len(w.wd)
}

func (w *watches) add(ww *watch) {
	w.mu.Lock()
	defer w.mu.Unlock()
	w.wd[ww.wd] = ww
	w.path[ww.path] = ww.wd
}

func (w *watches) remove(wd uint32) {
	w.mu.Lock()
	defer w.mu.Unlock()
	watch := w.wd[wd] // Could have had Remove() called. See #616.
	if watch == nil {
		return
	}
	delete(w.path, watch.path)
	delete(w.wd, wd)
}

func (w *watches) removePath(path string) ([]uint32, error) {
	w.mu.Lock()
	defer w.mu.Unlock()

	path, recurse := recursivePath(path)
	wd, ok := w.path[path]
	if !ok {
		return nil, fmt.Errorf("%w: %s", ErrNonExistentWatch, path)
	}

	watch := w.wd[wd]
	if recurse && !watch.recurse {
		return nil, fmt.Errorf("can't use /... with non-recursive watch %q", path)
	}

	delete(w.path, path)
	delete(w.wd, wd)
	if !watch.recurse {
		return []uint32{wd}, nil
	}

	wds := make([]uint32, 0, 8)
	wds = append(wds, wd)
	for p, rwd := range w.path {
		if filepath.HasPrefix(p, path) {
			delete(w.path, p)
			delete(w.wd, rwd)
			wds = append(wds, rwd)
		}
	}
	return wds, nil
}

func (w *watches) byPath(path string) *watch {
	w.mu.RLock()
	defer w.mu.RUnlock()
	return w.wd[w.path[path]]
}

func (w *watches) byWd(wd uint32) *watch {
	w.mu.RLock()
	defer w.mu.RUnlock()
	return w.wd[wd]
}

func (w *watches) updatePath(path string, f func(*watch) (*watch, error)) error {
	w.mu.Lock()
	defer w.mu.Unlock()

	var existing *watch
	wd, ok := w.path[path]
	if ok {
		existing = w.wd[wd]
	}

	upd, err := f(existing)
	if err != nil {
		return err
	}
	if upd != nil {
		w.wd[upd.wd] = upd
		w.path[upd.path] = upd.wd

		if upd.wd != wd {
			delete(w.wd, wd)
		}
	}

	return nil
}

func newBackend(ev chan Event, errs chan error) (backend, error) {
	return newBufferedBackend(0, ev, errs)
}

func newBufferedBackend(sz uint, ev chan Event, errs chan error) (backend, error) {
	// Need to set nonblocking mode for SetDeadline to work, otherwise blocking
	// I/O operations won't terminate on close.
	fd, errno := unix.InotifyInit1(unix.IN_CLOEXEC | unix.IN_NONBLOCK)
	if fd == -1 {
		return nil, errno
	}

	w := &inotify{
		Events:      ev,
		Errors:      errs,
		fd:          fd,
		watches:     newWatches(),
		done:        make(chan struct{}),
		doneResp:    make(chan struct{}),
	}

	simrt.Count("inotify-opened")
	go w.readEvents()
	return w, nil
}

// Returns true if the event was sent, or false if watcher is closed.
func (w *inotify) sendEvent(e Event) bool {
	simrt.Logf("fsnotify event %s", e)
	simrt.Yield("fsn.sendEvent")
	defer simrt.Yield("fsn.sent")
	select {
	case <-w.done:
		return false
	case w.Events <- e:
		return true
	}
}

// Returns true if the error was sent, or false if watcher is closed.
func (w *inotify) sendError(err error) bool {
	if err == nil {
		return true
	}
	simrt.Yield("fsn.sendError")
	defer simrt.Yield("fsn.sent")
	select {
	case <-w.done:
		return false
	case w.Errors <- err:
		return true
	}
}

func (w *inotify) isClosed() bool {
	select {
	case <-w.done:
		return true
	default:
		return false
	}
}

func (w *inotify) Close() error {
	w.doneMu.Lock()
	if w.isClosed() {
		w.doneMu.Unlock()
		return nil
	}
	close(w.done)
	w.doneMu.Unlock()

	// Causes any blocking reads to return with an error, provided the file
	// still supports deadline operations.
	simrt.Yield("fsn.close")

	// Wait for goroutine to close
	<-w.doneResp

	return nil
}

func (w *inotify) Add(name string) error { return w.AddWith(name) }

func (w *inotify) AddWith(path string, opts ...addOpt) error {
	simrt.Logf("fsnotify Add(%s)", path)
	if w.isClosed() {
		return ErrClosed
	}
	// simulation fault: the kernel refuses the watch (fs.inotify.max_user_watches)
	if simrt.Chance("watch-add-enospc") {
		return fmt.Errorf("inotify_add_watch %q: %w", path, unix.ENOSPC)
	}
	if debug {
		fmt.Fprintf(os.Stderr, "FSNOTIFY_DEBUG: %s  AddWith(%q)\n",
			time.Now().Format("15:04:05.000000000"), path)
	}

	with := getOptions(opts...)
	if !w.xSupports(with.op) {
		return fmt.Errorf("%w: %s", xErrUnsupported, with.op)
	}

	path, recurse := recursivePath(path)
	if recurse {
		return filepath.WalkDir(path, func(root string, d fs.DirEntry, err error) error {
			if err != nil {
				return err
			}
			if !d.IsDir() {
				if root == path {
					return fmt.Errorf("fsnotify: not a directory: %q", path)
				}
				return nil
			}

			// Send a Create event when adding new directory from a recursive
			// watch; this is for "mkdir -p one/two/three". Usually all those
			// directories will be created before we can set up watchers on the
			// subdirectories, so only "one" would be sent as a Create event and
			// not "one/two" and "one/two/three" (inotifywait -r has the same
			// problem).
			if with.sendCreate && root != path {
				w.sendEvent(Event{Name: root, Op: Create})
			}

			return w.add(root, with, true)
		})
	}

	return w.add(path, with, false)
}

func (w *inotify) add(path string, with withOpts, recurse bool) error {
	var flags uint32
	if with.noFollow {
		flags |= unix.IN_DONT_FOLLOW
	}
	if with.op.Has(Create) {
		flags |= unix.IN_CREATE
	}
	if with.op.Has(Write) {
		flags |= unix.IN_MODIFY
	}
	if with.op.Has(Remove) {
		flags |= unix.IN_DELETE | unix.IN_DELETE_SELF
	}
	if with.op.Has(Rename) {
		flags |= unix.IN_MOVED_TO | unix.IN_MOVED_FROM | unix.IN_MOVE_SELF
	}
	if with.op.Has(Chmod) {
		flags |= unix.IN_ATTRIB
	}
	if with.op.Has(xUnportableOpen) {
		flags |= unix.IN_OPEN
	}
	if with.op.Has(xUnportableRead) {
		flags |= unix.IN_ACCESS
	}
	if with.op.Has(xUnportableCloseWrite) {
		flags |= unix.IN_CLOSE_WRITE
	}
	if with.op.Has(xUnportableCloseRead) {
		flags |= unix.IN_CLOSE_NOWRITE
	}
	return w.register(path, flags, recurse)
}

func (w *inotify) register(path string, flags uint32, recurse bool) error {
	return w.watches.updatePath(path, func(existing *watch) (*watch, error) {
		if existing != nil {
			flags |= existing.flags | unix.IN_MASK_ADD
		}

		wd, err := unix.InotifyAddWatch(w.fd, path, flags)
		simrt.Logf("inotify_add_watch(%s, %#x) = %d %v", path, flags, wd, err)
		if wd == -1 {
			return nil, err
		}

		if existing == nil {
			return &watch{
				wd:      uint32(wd),
				path:    path,
				flags:   flags,
				recurse: recurse,
			}, nil
		}

		existing.wd = uint32(wd)
		existing.flags = flags
		return existing, nil
	})
}

func (w *inotify) Remove(name string) error {
	simrt.Logf("fsnotify Remove(%s)", name)
	if w.isClosed() {
		return nil
	}
	if debug {
		fmt.Fprintf(os.Stderr, "FSNOTIFY_DEBUG: %s  Remove(%q)\n",
			time.Now().Format("15:04:05.000000000"), name)
	}
	return w.remove(filepath.Clean(name))
}

func (w *inotify) remove(name string) error {
	wds, err := w.watches.removePath(name)
	if err != nil {
		return err
	}

	for _, wd := range wds {
		_, err := unix.InotifyRmWatch(w.fd, wd)
		if err != nil {
			// TODO: Perhaps it's not helpful to return an error here in every
			// case; the only two possible errors are:
			//
			// EBADF, which happens when w.fd is not a valid file descriptor of
			// any kind.
			//
			// EINVAL, which is when fd is not an inotify descriptor or wd is
			// not a valid watch descriptor. Watch descriptors are invalidated
			// when they are removed explicitly or implicitly; explicitly by
			// inotify_rm_watch, implicitly when the file they are watching is
			// deleted.
			return err
		}
	}
	return nil
}

func (w *inotify) WatchList() []string {
	if w.isClosed() {
		return nil
	}

	entries := make([]string, 0, w.watches.len())
	w.watches.mu.RLock()
	for pathname := range w.watches.path {
		entries = append(entries, pathname)
	}
	w.watches.mu.RUnlock()

	return entries
}

// readEvents reads from the inotify file descriptor, converts the
// received events into Event objects and sends them via the Events channel
func (w *inotify) readEvents() {
	simrt.TaskEnter("fsn.pump entry")
	defer simrt.TaskExit()
	defer func() {
		unix.Close(w.fd)
		simrt.Count("inotify-closed")
		close(w.doneResp)
		close(w.Errors)
		close(w.Events)
	}()

	var (
		buf   [unix.SizeofInotifyEvent * 4096]byte // Buffer for a maximum of 4096 raw events
		errno error                                // Syscall errno
	)
	for {
		// See if we have been closed.
		if w.isClosed() {
			return
		}

		simrt.YieldWhen("fsn.pump", func() bool { return w.isClosed() || simrt.Readable(w.fd) })
		if w.isClosed() {
			return
		}
		n, err := unix.Read(w.fd, buf[:simrt.BatchSize(len(buf))])
		switch {
		case errors.Unwrap(err) == os.ErrClosed:
			return
		case err != nil:
			if !w.sendError(err) {
				return
			}
			continue
		}

		if n < unix.SizeofInotifyEvent {
			var err error
			if n == 0 {
				err = io.EOF // If EOF is received. This should really never happen.
			} else if n < 0 {
				err = errno // If an error occurred while reading.
			} else {
				err = errors.New("notify: short read in readEvents()") // Read was too short.
			}
			if !w.sendError(err) {
				return
			}
			continue
		}

		// simulation fault: kernel queue overflow. The tail of this batch is
		// lost and IN_Q_OVERFLOW is delivered after the surviving events,
		// which is the order the kernel guarantees.
		overflowed := false
		if simrt.Chance("inotify-overflow") {
			var bounds []int
			for o := 0; o+unix.SizeofInotifyEvent <= n; {
				bounds = append(bounds, o)
				raw := (*unix.InotifyEvent)(unsafe.Pointer(&buf[o]))
				o += unix.SizeofInotifyEvent + int(raw.Len)
			}
			keep := simrt.Choose(len(bounds))
			n = bounds[keep]
			overflowed = true
			// everything still queued in the kernel is lost too
			var drain [4096]byte
			for simrt.Readable(w.fd) {
				if _, err := unix.Read(w.fd, drain[:]); err != nil {
					break
				}
			}
		}

		// We don't know how many events we just read into the buffer
		// While the offset points to at least one whole event...
		var offset uint32
		for n >= unix.SizeofInotifyEvent && offset <= uint32(n-unix.SizeofInotifyEvent) {
			var (
				// Point "raw" to the event in the buffer
				raw     = (*unix.InotifyEvent)(unsafe.Pointer(&buf[offset]))
				mask    = uint32(raw.Mask)
				nameLen = uint32(raw.Len)
				// Move to the next event in the buffer
				next = func() { offset += unix.SizeofInotifyEvent + nameLen }
			)

			if mask&unix.IN_Q_OVERFLOW != 0 {
				if !w.sendError(ErrEventOverflow) {
					return
				}
			}

			/// If the event happened to the watched directory or the watched
			/// file, the kernel doesn't append the filename to the event, but
			/// we would like to always fill the the "Name" field with a valid
			/// filename. We retrieve the path of the watch from the "paths"
			/// map.
			simrt.Logf("inotify raw wd=%d mask=%#x len=%d", raw.Wd, mask, nameLen)
			watch := w.watches.byWd(uint32(raw.Wd))
			/// Can be nil if Remove() was called in another goroutine for this
			/// path inbetween reading the events from the kernel and reading
			/// the internal state. Not much we can do about it, so just skip.
			/// See #616.
			if watch == nil {
				next()
				continue
			}

			name := watch.path
			if nameLen > 0 {
				/// Point "bytes" at the first byte of the filename
				bytes := (*[unix.PathMax]byte)(unsafe.Pointer(&buf[offset+unix.SizeofInotifyEvent]))[:nameLen:nameLen]
				/// The filename is padded with NULL bytes. TrimRight() gets rid of those.
				name += "/" + strings.TrimRight(string(bytes[0:nameLen]), "\000")
			}

			if debug {
				internal.Debug(name, raw.Mask, raw.Cookie)
			}

			if mask&unix.IN_IGNORED != 0 { //&& event.Op != 0
				next()
				continue
			}

			// inotify will automatically remove the watch on deletes; just need
			// to clean our state here.
			if mask&unix.IN_DELETE_SELF == unix.IN_DELETE_SELF {
				w.watches.remove(watch.wd)
			}

			// We can't really update the state when a watched path is moved;
			// only IN_MOVE_SELF is sent and not IN_MOVED_{FROM,TO}. So remove
			// the watch.
			if mask&unix.IN_MOVE_SELF == unix.IN_MOVE_SELF {
				if watch.recurse {
					next() // Do nothing
					continue
				}

				err := w.remove(watch.path)
				if err != nil && !errors.Is(err, ErrNonExistentWatch) {
					if !w.sendError(err) {
						return
					}
				}
			}

			/// Skip if we're watching both this path and the parent; the parent
			/// will already send a delete so no need to do it twice.
			if mask&unix.IN_DELETE_SELF != 0 {
				if _, ok := w.watches.path[filepath.Dir(watch.path)]; ok {
					next()
					continue
				}
			}

			ev := w.newEvent(name, mask, raw.Cookie)
			// Need to update watch path for recurse.
			if watch.recurse {
				isDir := mask&unix.IN_ISDIR == unix.IN_ISDIR
				/// New directory created: set up watch on it.
				if isDir && ev.Has(Create) {
					err := w.register(ev.Name, watch.flags, true)
					if !w.sendError(err) {
						return
					}

					// This was a directory rename, so we need to update all
					// the children.
					//
					// TODO: this is of course pretty slow; we should use a
					// better data structure for storing all of this, e.g. store
					// children in the watch. I have some code for this in my
					// kqueue refactor we can use in the future. For now I'm
					// okay with this as it's not publicly available.
					// Correctness first, performance second.
					if ev.renamedFrom != "" {
						w.watches.mu.Lock()
						for k, ww := range w.watches.wd {
							if k == watch.wd || ww.path == ev.Name {
								continue
							}
							if strings.HasPrefix(ww.path, ev.renamedFrom) {
								ww.path = strings.Replace(ww.path, ev.renamedFrom, ev.Name, 1)
								w.watches.wd[k] = ww
							}
						}
						w.watches.mu.Unlock()
					}
				}
			}

			/// Send the events that are not ignored on the events channel
			if !w.sendEvent(ev) {
				return
			}
			next()
		}
		if overflowed {
			if !w.sendError(ErrEventOverflow) {
				return
			}
		}
	}
}

func (w *inotify) isRecursive(path string) bool {
	ww := w.watches.byPath(path)
	if ww == nil { // path could be a file, so also check the Dir.
		ww = w.watches.byPath(filepath.Dir(path))
	}
	return ww != nil && ww.recurse
}

func (w *inotify) newEvent(name string, mask, cookie uint32) Event {
	e := Event{Name: name}
	if mask&unix.IN_CREATE == unix.IN_CREATE || mask&unix.IN_MOVED_TO == unix.IN_MOVED_TO {
		e.Op |= Create
	}
	if mask&unix.IN_DELETE_SELF == unix.IN_DELETE_SELF || mask&unix.IN_DELETE == unix.IN_DELETE {
		e.Op |= Remove
	}
	if mask&unix.IN_MODIFY == unix.IN_MODIFY {
		e.Op |= Write
	}
	if mask&unix.IN_OPEN == unix.IN_OPEN {
		e.Op |= xUnportableOpen
	}
	if mask&unix.IN_ACCESS == unix.IN_ACCESS {
		e.Op |= xUnportableRead
	}
	if mask&unix.IN_CLOSE_WRITE == unix.IN_CLOSE_WRITE {
		e.Op |= xUnportableCloseWrite
	}
	if mask&unix.IN_CLOSE_NOWRITE == unix.IN_CLOSE_NOWRITE {
		e.Op |= xUnportableCloseRead
	}
	if mask&unix.IN_MOVE_SELF == unix.IN_MOVE_SELF || mask&unix.IN_MOVED_FROM == unix.IN_MOVED_FROM {
		e.Op |= Rename
	}
	if mask&unix.IN_ATTRIB == unix.IN_ATTRIB {
		e.Op |= Chmod
	}

	if cookie != 0 {
		if mask&unix.IN_MOVED_FROM == unix.IN_MOVED_FROM {
			w.cookiesMu.Lock()
			w.cookies[w.cookieIndex] = koekje{cookie: cookie, path: e.Name}
			w.cookieIndex++
			if w.cookieIndex > 9 {
				w.cookieIndex = 0
			}
			w.cookiesMu.Unlock()
		} else if mask&unix.IN_MOVED_TO == unix.IN_MOVED_TO {
			w.cookiesMu.Lock()
			var prev string
			for _, c := range w.cookies {
				if c.cookie == cookie {
					prev = c.path
					break
				}
			}
			w.cookiesMu.Unlock()
			e.renamedFrom = prev
		}
	}
	return e
}

func (w *inotify) xSupports(op Op) bool {
	return true // Supports everything.
}

func (w *inotify) state() {
	w.watches.mu.Lock()
	defer w.watches.mu.Unlock()
	for wd, ww := range w.watches.wd {
		fmt.Fprintf(os.Stderr, "%4d: recurse=%t %q\n", wd, ww.recurse, ww.path)
	}
}
