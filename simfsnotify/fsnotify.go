// Package fsnotify provides a cross-platform interface for file system
// notifications.
//
// Currently supported systems:
//
//   - Linux      via inotify
//   - BSD, macOS via kqueue
//   - Windows    via ReadDirectoryChangesW
//   - illumos    via FEN
//
// # FSNOTIFY_DEBUG
//
// Set the FSNOTIFY_DEBUG environment variable to "1" to print debug messages to
// stderr. This can be useful to track down some problems, especially in cases
// where fsnotify is used as an indirect dependency.
//
// Every event will be printed as soon as there's something useful to print,
// with as little processing from fsnotify.
//
// Example output:
//
//	FSNOTIFY_DEBUG: 11:34:23.633087586   256:IN_CREATE            → "/tmp/file-1"
//	FSNOTIFY_DEBUG: 11:34:23.633202319     4:IN_ATTRIB            → "/tmp/file-1"
//	FSNOTIFY_DEBUG: 11:34:28.989728764   512:IN_DELETE            → "/tmp/file-1"
package fsnotify

import (
	"errors"
	"fmt"
	"os"
	"path/filepath"
	"strings"
)

// Watcher watches a set of paths, delivering events on a channel.
//
// A watcher should not be copied (e.g. pass it by pointer, rather than by
// value).
//
// # Linux notes
//
// When a file is removed a Remove event won't be emitted until all file
// descriptors are closed, and deletes will always emit a Chmod. For example:
//
//	fp := os.Open("file")
//	os.Remove("file")        // Triggers Chmod
//	fp.Close()               // Triggers Remove
//
// This is the event that inotify sends, so not much can be changed about this.
//
// The fs.inotify.max_user_watches sysctl variable specifies the upper limit
// for the number of watches per user, and fs.inotify.max_user_instances
// specifies the maximum number of inotify instances per user. Every Watcher you
// create is an "instance", and every path you add is a "watch".
//
// These are also exposed in /proc as /proc/sys/fs/inotify/max_user_watches and
// /proc/sys/fs/inotify/max_user_instances
//
// To increase them you can use sysctl or write the value to the /proc file:
//
//	# Default values on Linux 5.18
//	sysctl fs.inotify.max_user_watches=124983
//	sysctl fs.inotify.max_user_instances=128
//
// To make the changes persist on reboot edit /etc/sysctl.conf or
// /usr/lib/sysctl.d/50-default.conf (details differ per Linux distro; check
// your distro's documentation):
//
//	fs.inotify.max_user_watches=124983
//	fs.inotify.max_user_instances=128
//
// Reaching the limit will result in a "no space left on device" or "too many open
// files" error.
//
// # kqueue notes (macOS, BSD)
//
// kqueue requires opening a file descriptor for every file that's being watched;
// so if you're watching a directory with five files then that's six file
// descriptors. You will run in to your system's "max open files" limit faster on
// these platforms.
//
// The sysctl variables kern.maxfiles and kern.maxfilesperproc can be used to
// control the maximum number of open files, as well as /etc/login.conf on BSD
// systems.
//
// # Windows notes
//
// Paths can be added as "C:\\path\\to\\dir", but forward slashes
// ("C:/path/to/dir") will also work.
//
// When a watched directory is removed it will always send an event for the
// directory itself, but may not send events for all files in that directory.
// Sometimes it will send events for all files, sometimes it will send no
// events, and often only for some files.
//
// The default ReadDirectoryChangesW() buffer size is 64K, which is the largest
// value that is guaranteed to work with SMB filesystems. If you have many
// events in quick succession this may not be enough, and you will have to use
// [WithBufferSize] to increase the value.
type Watcher struct {
	b backend

	// Events sends the filesystem change events.
	//
	// fsnotify can send the following events; a "path" here can refer to a
	// file, directory, symbolic link, or special file like a FIFO.
	//
	//   fsnotify.Create    A new path was created; this may be followed by one
	//                      or more Write events if data also gets written to a
	//                      file.
	//
	//   fsnotify.Remove    A path was removed.
	//
	//   fsnotify.Rename    A path was renamed. A rename is always sent with the
	//                      old path as Event.Name, and a Create event will be
	//                      sent with the new name. Renames are only sent for
	//                      paths that are currently watched; e.g. moving an
	//                      unmonitored file into a monitored directory will
	//                      show up as just a Create. Similarly, renaming a file
	//                      to outside a monitored directory will show up as
	//                      only a Rename.
	//
	//   fsnotify.Write     A file or named pipe was written to. A Truncate will
	//                      also trigger a Write. A single "write action"
	//                      initiated by the user may show up as one or multiple
	//                      writes, depending on when the system syncs things to
	//                      disk. For example when compiling a large Go program
	//                      you may get hundreds of Write events, and you may
	//                      want to wait until you've stopped receiving them
	//                      (see the dedup example in cmd/fsnotify).
	//
	//                      Some systems may send Write event for directories
	//                      when the directory content changes.
	//
	//   fsnotify.Chmod     Attributes were changed. On Linux this is also sent
	//                      when a file is removed (or more accurately, when a
	//                      link to an inode is removed). On kqueue it's sent
	//                      when a file is truncated. On Windows it's never
	//                      sent.
	Events chan Event

	// Errors sends any errors.
	Errors chan error
}

// Event represents a file system notification.
type Event struct {
	// Path to the file or directory.
	//
	// Paths are relative to the input; for example with Add("dir") the Name
	// will be set to "dir/file" if you create that file, but if you use
	// Add("/path/to/dir") it will be "/path/to/dir/file".
	Name string

	// File operation that triggered the event.
	//
	// This is a bitmask and some systems may send multiple operations at once.
	// Use the Event.Has() method instead of comparing with ==.
	Op Op

	// Create events will have this set to the old path if it's a rename. This
	// only works when both the source and destination are watched. It's not
	// reliable when watching individual files, only directories.
	//
	// For example "mv /tmp/file /tmp/rename" will emit:
	//
	//   Event{Op: Rename, Name: "/tmp/file"}
	//   Event{Op: Create, Name: "/tmp/rename", RenamedFrom: "/tmp/file"}
	renamedFrom string
}

// Op describes a set of file operations.
type Op uint32

// The operations fsnotify can trigger; see the documentation on [Watcher] for a
// full description, and check them with [Event.Has].
const (
	// A new pathname was created.
	Create Op = 1 << iota

	// The pathname was written to; this does *not* mean the write has finished,
	// and a write can be followed by more writes.
	Write

	// The path was removed; any watches on it will be removed. Some "remove"
	// operations may trigger a Rename if the file is actually moved (for
	// example "remove to trash" is often a rename).
	Remove

	// The path was renamed to something else; any watches on it will be
	// removed.
	Rename

	// File attributes were changed.
	//
	// It's generally not recommended to take action on this event, as it may
	// get triggered very frequently by some software. For example, Spotlight
	// indexing on macOS, anti-virus software, backup software, etc.
	Chmod

	// File descriptor was opened.
	//
	// Only works on Linux and FreeBSD.
	xUnportableOpen

	// File was read from.
	//
	// Only works on Linux and FreeBSD.
	xUnportableRead

	// File opened for writing was closed.
	//
	// Only works on Linux and FreeBSD.
	//
	// The advantage of using this over Write is that it's more reliable than
	// waiting for Write events to stop. It's also faster (if you're not
	// listening to Write events): copying a file of a few GB can easily
	// generate tens of thousands of Write events in a short span of time.
	xUnportableCloseWrite

	// File opened for reading was closed.
	//
	// Only works on Linux and FreeBSD.
	xUnportableCloseRead
)

var (
	// ErrNonExistentWatch is used when Remove() is called on a path that's not
	// added.
	ErrNonExistentWatch = errors.New("fsnotify: can't remove non-existent watch")

	// ErrClosed is used when trying to operate on a closed Watcher.
	ErrClosed = errors.New("fsnotify: watcher already closed")

	// ErrEventOverflow is reported from the Errors channel when there are too
	// many events:
	//
	//  - inotify:      inotify returns IN_Q_OVERFLOW – because there are too
	//                  many queued events (the fs.inotify.max_queued_events
	//                  sysctl can be used to increase this).
	//  - windows:      The buffer size is too small; WithBufferSize() can be used to increase it.
	//  - kqueue, fen:  Not used.
	ErrEventOverflow = errors.New("fsnotify: queue or buffer overflow")

	// ErrUnsupported is returned by AddWith() when WithOps() specified an
	// Unportable event that's not supported on this platform.
	xErrUnsupported = errors.New("fsnotify: not supported with this backend")
)

// NewWatcher creates a new Watcher.
func NewWatcher() (*Watcher, error) {
	ev, errs := make(chan Event), make(chan error)
	b, err := newBackend(ev, errs)
	if err != nil {
		return nil, err
	}
	return &Watcher{b: b, Events: ev, Errors: errs}, nil
}

// NewBufferedWatcher creates a new Watcher with a buffered Watcher.Events
// channel.
//
// The main use case for this is situations with a very large number of events
// where the kernel buffer size can't be increased (e.g. due to lack of
// permissions). An unbuffered Watcher will perform better for almost all use
// cases, and whenever possible you will be better off increasing the kernel
// buffers instead of adding a large userspace buffer.
func NewBufferedWatcher(sz uint) (*Watcher, error) {
	ev, errs := make(chan Event), make(chan error)
	b, err := newBufferedBackend(sz, ev, errs)
	if err != nil {
		return nil, err
	}
	return &Watcher{b: b, Events: ev, Errors: errs}, nil
}

// Add starts monitoring the path for changes.
//
// A path can only be watched once; watching it more than once is a no-op and will
// not return an error. Paths that do not yet exist on the filesystem cannot be
// watched.
//
// A watch will be automatically removed if the watched path is deleted or
// renamed. The exception is the Windows backend, which doesn't remove the
// watcher on renames.
//
// Notifications on network filesystems (NFS, SMB, FUSE, etc.) or special
// filesystems (/proc, /sys, etc.) generally don't work.
//
// Returns [ErrClosed] if [Watcher.Close] was called.
//
// See [Watcher.AddWith] for a version that allows adding options.
//
// # Watching directories
//
// All files in a directory are monitored, including new files that are created
// after the watcher is started. Subdirectories are not watched (i.e. it's
// non-recursive).
//
// # Watching files
//
// Watching individual files (rather than directories) is generally not
// recommended as many programs (especially editors) update files atomically: it
// will write to a temporary file which is then moved to destination,
// overwriting the original (or some variant thereof). The watcher on the
// original file is now lost, as that no longer exists.
//
// The upshot of this is that a power failure or crash won't leave a
// half-written file.
//
// Watch the parent directory and use Event.Name to filter out files you're not
// interested in. There is an example of this in cmd/fsnotify/file.go.
func (w *Watcher) Add(path string) error { return w.b.Add(path) }

// AddWith is like [Watcher.Add], but allows adding options. When using Add()
// the defaults described below are used.
//
// Possible options are:
//
//   - [WithBufferSize] sets the buffer size for the Windows backend; no-op on
//     other platforms. The default is 64K (65536 bytes).
func (w *Watcher) AddWith(path string, opts ...addOpt) error { return w.b.AddWith(path, opts...) }

// Remove stops monitoring the path for changes.
//
// Directories are always removed non-recursively. For example, if you added
// /tmp/dir and /tmp/dir/subdir then you will need to remove both.
//
// Removing a path that has not yet been added returns [ErrNonExistentWatch].
//
// Returns nil if [Watcher.Close] was called.
func (w *Watcher) Remove(path string) error { return w.b.Remove(path) }

// Close removes all watches and closes the Events channel.
func (w *Watcher) Close() error { return w.b.Close() }

// WatchList returns all paths explicitly added with [Watcher.Add] (and are not
// yet removed).
//
// Returns nil if [Watcher.Close] was called.
func (w *Watcher) WatchList() []string { return w.b.WatchList() }

// Supports reports if all the listed operations are supported by this platform.
//
// Create, Write, Remove, Rename, and Chmod are always supported. It can only
// return false for an Op starting with Unportable.
func (w *Watcher) xSupports(op Op) bool { return w.b.xSupports(op) }

func (o Op) String() string {
	var b strings.Builder
	if o.Has(Create) {
		b.WriteString("|CREATE")
	}
	if o.Has(Remove) {
		b.WriteString("|REMOVE")
	}
	if o.Has(Write) {
		b.WriteString("|WRITE")
	}
	if o.Has(xUnportableOpen) {
		b.WriteString("|OPEN")
	}
	if o.Has(xUnportableRead) {
		b.WriteString("|READ")
	}
	if o.Has(xUnportableCloseWrite) {
		b.WriteString("|CLOSE_WRITE")
	}
	if o.Has(xUnportableCloseRead) {
		b.WriteString("|CLOSE_READ")
	}
	if o.Has(Rename) {
		b.WriteString("|RENAME")
	}
	if o.Has(Chmod) {
		b.WriteString("|CHMOD")
	}
	if b.Len() == 0 {
		return "[no events]"
	}
	return b.String()[1:]
}

// Has reports if this operation has the given operation.
func (o Op) Has(h Op) bool { return o&h != 0 }

// Has reports if this event has the given operation.
func (e Event) Has(op Op) bool { return e.Op.Has(op) }

// String returns a string representation of the event with their path.
func (e Event) String() string {
	if e.renamedFrom != "" {
		return fmt.Sprintf("%-13s %q ← %q", e.Op.String(), e.Name, e.renamedFrom)
	}
	return fmt.Sprintf("%-13s %q", e.Op.String(), e.Name)
}

type (
	backend interface {
		Add(string) error
		AddWith(string, ...addOpt) error
		Remove(string) error
		WatchList() []string
		Close() error
		xSupports(Op) bool
	}
	addOpt   func(opt *withOpts)
	withOpts struct {
		bufsize    int
		op         Op
		noFollow   bool
		sendCreate bool
	}
)

var debug = func() bool {
	// Check for exactly "1" (rather than mere existence) so we can add
	// options/flags in the future. I don't know if we ever want that, but it's
	// nice to leave the option open.
	return os.Getenv("FSNOTIFY_DEBUG") == "1"
}()

var defaultOpts = withOpts{
	bufsize: 65536, // 64K
	op:      Create | Write | Remove | Rename | Chmod,
}

func getOptions(opts ...addOpt) withOpts {
	with := defaultOpts
	for _, o := range opts {
		if o != nil {
			o(&with)
		}
	}
	return with
}

// WithBufferSize sets the [ReadDirectoryChangesW] buffer size.
//
// This only has effect on Windows systems, and is a no-op for other backends.
//
// The default value is 64K (65536 bytes) which is the highest value that works
// on all filesystems and should be enough for most applications, but if you
// have a large burst of events it may not be enough. You can increase it if
// you're hitting "queue or buffer overflow" errors ([ErrEventOverflow]).
//
// [ReadDirectoryChangesW]: https://learn.microsoft.com/en-gb/windows/win32/api/winbase/nf-winbase-readdirectorychangesw
func WithBufferSize(bytes int) addOpt {
	return func(opt *withOpts) { opt.bufsize = bytes }
}

// WithOps sets which operations to listen for. The default is [Create],
// [Write], [Remove], [Rename], and [Chmod].
//
// Excluding operations you're not interested in can save quite a bit of CPU
// time; in some use cases there may be hundreds of thousands of useless Write
// or Chmod operations per second.
//
// This can also be used to add unportable operations not supported by all
// platforms; unportable operations all start with "Unportable":
// [UnportableOpen], [UnportableRead], [UnportableCloseWrite], and
// [UnportableCloseRead].
//
// AddWith returns an error when using an unportable operation that's not
// supported. Use [Watcher.Support] to check for support.
func withOps(op Op) addOpt {
	return func(opt *withOpts) { opt.op = op }
}

// WithNoFollow disables following symlinks, so the symlinks themselves are
// watched.
func withNoFollow() addOpt {
	return func(opt *withOpts) { opt.noFollow = true }
}

// "Internal" option for recursive watches on inotify.
func withCreate() addOpt {
	return func(opt *withOpts) { opt.sendCreate = true }
}

var enableRecurse = false

// Check if this path is recursive (ends with "/..." or "\..."), and return the
// path with the /... stripped.
func recursivePath(path string) (string, bool) {
	path = filepath.Clean(path)
	if !enableRecurse { // Only enabled in tests for now.
		return path, false
	}
	if filepath.Base(path) == "..." {
		return filepath.Dir(path), true
	}
	return path, false
}
