module github.com/fsnotify/fsnotify

go 1.26.8

require (
	golang.org/x/sys v0.26.0
	simrt v0.0.0
)
