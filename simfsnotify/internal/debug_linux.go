package internal

import (
	"fmt"
	"os"
	"strings"
	"time"

	"golang.org/x/sys/unix"
)

func Debug(name string, mask, cookie uint32) {
	names := []struct {
		n string
		m uint32
	}{
		{"IN_ACCESS", unix.IN_ACCESS},
		{"IN_ATTRIB", unix.IN_ATTRIB},
		{"IN_CLOSE", unix.IN_CLOSE},
		{"IN_CLOSE_NOWRITE", unix.IN_CLOSE_NOWRITE},
		{"IN_CLOSE_WRITE", unix.IN_CLOSE_WRITE},
		{"IN_CREATE", unix.IN_CREATE},
		{"IN_DELETE", unix.IN_DELETE},
		{"IN_DELETE_SELF", unix.IN_DELETE_SELF},
		{"IN_IGNORED", unix.IN_IGNORED},
		{"IN_ISDIR", unix.IN_ISDIR},
		{"IN_MODIFY", unix.IN_MODIFY},
		{"IN_MOVE", unix.IN_MOVE},
		{"IN_MOVED_FROM", unix.IN_MOVED_FROM},
		{"IN_MOVED_TO", unix.IN_MOVED_TO},
		{"IN_MOVE_SELF", unix.IN_MOVE_SELF},
		{"IN_OPEN", unix.IN_OPEN},
		{"IN_Q_OVERFLOW", unix.IN_Q_OVERFLOW},
		{"IN_UNMOUNT", unix.IN_UNMOUNT},
	}

	var (
		l       []string
		unknown = mask
	)
	for _, n := range names {
		if mask&n.m == n.m {
			l = append(l, n.n)
			unknown ^= n.m
		}
	}
	if unknown > 0 {
		l = append(l, fmt.Sprintf("0x%x", unknown))
	}
	var c string
	if cookie > 0 {
		c = fmt.Sprintf("(cookie: %d) ", cookie)
	}
	fmt.Fprintf(os.Stderr, "FSNOTIFY_DEBUG: %s  %-30s → %s%q\n",
		time.Now().Format("15:04:05.000000000"), strings.Join(l, "|"), c, name)
}
