// Package internal contains some helpers.
package internal
