//go:build !windows && !darwin && !freebsd

package internal

import (
	"syscall"

	"golang.org/x/sys/unix"
)

var (
	SyscallEACCES = syscall.EACCES
	UnixEACCES    = unix.EACCES
)

var maxfiles uint64

func SetRlimit() {
	// Go 1.19 will do this automatically: https://go-review.googlesource.com/c/go/+/393354/
	var l syscall.Rlimit
	err := syscall.Getrlimit(syscall.RLIMIT_NOFILE, &l)
	if err == nil && l.Cur != l.Max {
		l.Cur = l.Max
		syscall.Setrlimit(syscall.RLIMIT_NOFILE, &l)
	}
	maxfiles = uint64(l.Cur)
}

func Maxfiles() uint64                              { return maxfiles }
func Mkfifo(path string, mode uint32) error         { return unix.Mkfifo(path, mode) }
func Mknod(path string, mode uint32, dev int) error { return unix.Mknod(path, mode, dev) }
