//go:build !windows

package internal

func HasPrivilegesForSymlink() bool {
	return true
}
