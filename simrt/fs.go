package simrt

import (
	"os"
	"path/filepath"
	"syscall"

	"golang.org/x/sys/unix"
)

// File wraps the real *os.File returned by os.Open in instrumented code
// (sources/file). Every Read is a scheduling point, so a writer task's steps
// interleave with the watcher's read (torn reads), and it is where the
// short-read and EIO faults are injected.
type File struct {
	*os.File
	path string
	// ReadLog is appended to the run's read log when the file is closed.
	got    []byte
	failed bool
}

// ReadRecord is what one open/read*/close sequence of the code under test obtained.
type ReadRecord struct {
	Path string
	Data []byte
	Err  string
	Step int
}

// Reads collects what the code under test read through Open (oracle input:
// "no invented content").
var readsHook func(ReadRecord)

// OnFileRead installs the per-run collector for ReadRecords.
func OnFileRead(f func(ReadRecord)) { readsHook = f }

// Open replaces os.Open in sources/file.
func Open(name string) (*File, error) {
	Yield("os.Open")
	f, err := os.Open(name)
	if err != nil {
		return nil, err
	}
	if Chance("open-eio") {
		f.Close()
		return nil, &os.PathError{Op: "open", Path: name, Err: syscall.EIO}
	}
	return &File{File: f, path: name}, nil
}

func (f *File) Read(p []byte) (int, error) {
	Yield("file.Read")
	if len(p) > 1 && Chance("short-read") {
		p = p[:1+Choose(len(p)-1)]
	}
	if Chance("read-eio") {
		if readsHook != nil {
			readsHook(ReadRecord{Path: f.path, Data: f.got, Err: "EIO", Step: Step()})
		}
		f.failed = true
		return 0, &os.PathError{Op: "read", Path: f.path, Err: syscall.EIO}
	}
	n, err := f.File.Read(p)
	f.got = append(f.got, p[:n]...)
	return n, err
}

func (f *File) Close() error {
	if readsHook != nil && !f.failed {
		readsHook(ReadRecord{Path: f.path, Data: f.got, Step: Step()})
	}
	return f.File.Close()
}

// EvalSymlinks replaces filepath.EvalSymlinks in sources/file.
func EvalSymlinks(p string) (string, error) {
	Yield("EvalSymlinks")
	return filepath.EvalSymlinks(p)
}

// Readable reports whether the (inotify) descriptor has bytes queued.
func Readable(fd int) bool {
	n, err := unix.IoctlGetInt(fd, 0x541B) // FIONREAD
	return err == nil && n > 0
}

// BatchSize draws how many bytes the fsnotify pump asks the kernel for.
func BatchSize(max int) int {
	if cur.Load() == nil {
		return max
	}
	opts := []int{unix.SizeofInotifyEvent + unix.NAME_MAX + 1, 1024, max}
	return opts[Choose(len(opts))]
}
