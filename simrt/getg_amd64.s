#include "textflag.h"

// func getg() uintptr
TEXT ·getg(SB),NOSPLIT,$0-8
	MOVQ (TLS), AX
	MOVQ AX, ret+0(FP)
	RET
