module simrt

go 1.26.8

require golang.org/x/sys v0.26.0
