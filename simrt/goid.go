package simrt

import (
	"bytes"
	"runtime"
	"strconv"
	"unsafe"
)

func getg() uintptr

// goidOff is the offset of the goid field inside the runtime's g struct, found
// at start-up by looking for the id that runtime.Stack prints, on two
// different goroutines. Zero means "not found": the slow path is used.
var goidOff uintptr

func slowGoid() uint64 {
	var b [64]byte
	n := runtime.Stack(b[:], false)
	f := bytes.Fields(b[:n])
	id, _ := strconv.ParseUint(string(f[1]), 10, 64)
	return id
}

func candidates() map[uintptr]bool {
	id := slowGoid()
	g := getg()
	out := map[uintptr]bool{}
	for off := uintptr(0); off < 512; off += 8 {
		if *(*uint64)(unsafe.Pointer(g + off)) == id {
			out[off] = true
		}
	}
	return out
}

func init() {
	a := candidates()
	ch := make(chan map[uintptr]bool)
	go func() { ch <- candidates() }()
	b := <-ch
	var found []uintptr
	for off := range a {
		if b[off] {
			found = append(found, off)
		}
	}
	if len(found) == 1 {
		goidOff = found[0]
	}
}

func goid() uint64 {
	if goidOff != 0 {
		return *(*uint64)(unsafe.Pointer(getg() + goidOff))
	}
	return slowGoid()
}

// FastGoid reports whether the fast goroutine-id path is in use.
func FastGoid() bool { return goidOff != 0 }
