// Package simrt is the deterministic-simulation kernel used by the checks in
// /verif: one goroutine ("task") is released at a time by a seeded scheduler
// that runs on the root goroutine of a testing/synctest bubble.  Library code
// reaches the kernel only through calls inserted by /verif/tools/instrument
// into a scratch copy of the tree under test (Yield, TaskEnter/TaskExit,
// SelectOrder, MuLock/MuUnlock, Open, EvalSymlinks) and through the forked
// fsnotify reader in /verif/simfsnotify.
package simrt

import (
	"fmt"
	"hash/fnv"
	"math/rand/v2"
	"runtime/debug"
	"sort"
	"strings"
	"sync"
	"sync/atomic"
	"testing/synctest"
	"time"
)

// State of a task as the scheduler sees it at a step boundary.
type State int

const (
	Running  State = iota // released and not parked again: executing, or blocked in a real channel operation
	Parked                // at a yield, waiting for the scheduler
	Sleeping              // in a fake-clock sleep issued through Sleep
	Exited
)

func (st State) String() string {
	return [...]string{"blocked", "parked", "sleeping", "exited"}[st]
}

// Crash is a panic that escaped a task's function.
type Crash struct {
	Task  string
	Value string
	Stack string
	Step  int
}

// Task is one goroutine known to the kernel.
type Task struct {
	Name   string
	Lib    bool // started by instrumented library code (go statement) rather than by the harness
	id     uint64
	state  State
	label  string
	pred   func() bool
	gate   chan struct{}
	Exit   int // step at which it exited
	waitMu *sync.Mutex
	nest   int
}

// Info is a snapshot of a task.
type Info struct {
	Name  string
	Lib   bool
	State State
	Label string
}

// Choice is one recorded draw from the run's choice stream.
type Choice struct {
	N, V int
}

// Bias configures non-uniform scheduling; every decision still goes through
// the choice stream, so biased runs replay like any other.
type Bias struct {
	Sticky     int    // percent: keep running the task released last when it is eligible
	Starve     string // task-name prefix that is not picked while others are eligible ...
	StarveTill int    // ... until this step
}

// Sim is one simulated run.
type Sim struct {
	mu    sync.Mutex
	tasks map[uint64]*Task
	all   []*Task
	wake  chan struct{}
	root  uint64
	nseq  map[string]int

	prefix []int
	pos    int
	rng    *rand.Rand
	Made   []Choice
	Record bool

	step     int
	hash     uint64
	Log      []string
	KeepLog  bool
	sleepers int
	muHeld   map[*sync.Mutex]*Task
	last     *Task

	AfterStep func()
	Bias      Bias
	Crashes   []*Crash
	Counters  map[string]int
	States    map[uint64]struct{}
	Released  map[string]int // label -> number of releases at that label
	LastFault int            // step at which an injected fault last fired

	// fault configuration read by the fs wrappers and the fsnotify pump
	Faults map[string]int // kind -> rate in 1/1000 per eligible point

	start time.Time
}

var cur atomic.Pointer[Sim]

// Cur returns the simulation the calling process is running, if any.
func Cur() *Sim { return cur.Load() }

// New creates the simulation; it must be called on the root goroutine of the
// synctest bubble. prefix is an explicit list of choices consumed before the
// PRNG (seeded with seed) takes over.
func New(seed uint64, prefix []int) *Sim {
	s := &Sim{
		tasks:    map[uint64]*Task{},
		wake:     make(chan struct{}, 1),
		root:     goid(),
		nseq:     map[string]int{},
		prefix:   prefix,
		rng:      rand.New(rand.NewPCG(seed, 0x9e3779b97f4a7c15)),
		muHeld:   map[*sync.Mutex]*Task{},
		Counters: map[string]int{},
		Released: map[string]int{},
		States:   map[uint64]struct{}{},
		Faults:   map[string]int{},
		start:    time.Now(),
	}
	cur.Store(s)
	return s
}

// Close detaches the simulation from the process.
func (s *Sim) Close() { cur.CompareAndSwap(s, nil) }

func (s *Sim) poke() {
	select {
	case s.wake <- struct{}{}:
	default:
	}
}

// choose draws one value in [0,n) from the choice stream. Callers hold no lock.
func (s *Sim) choose(n int) int {
	if n <= 1 {
		return 0
	}
	var v int
	if s.pos < len(s.prefix) {
		v = s.prefix[s.pos] % n
		if v < 0 {
			v = 0
		}
	} else {
		v = s.rng.IntN(n)
	}
	s.pos++
	if s.Record {
		s.Made = append(s.Made, Choice{n, v})
	}
	return v
}

// Choose is the run-time draw for code running inside a task (fault
// decisions, batch sizes). Only one task runs at a time, so draws are ordered.
func Choose(n int) int {
	s := cur.Load()
	if s == nil {
		return 0
	}
	s.mu.Lock()
	defer s.mu.Unlock()
	return s.choose(n)
}

// Chance reports whether the fault kind fires at this eligible point; the
// rate comes from Sim.Faults (per mille). A firing is counted.
func Chance(kind string) bool {
	s := cur.Load()
	if s == nil {
		return false
	}
	s.mu.Lock()
	defer s.mu.Unlock()
	r := s.Faults[kind]
	if r <= 0 {
		return false
	}
	if s.choose(1000) < r {
		s.Counters["fault:"+kind]++
		s.LastFault = s.step
		return true
	}
	return false
}

// Count increments a probe / fault counter.
func Count(name string) {
	s := cur.Load()
	if s == nil {
		return
	}
	s.mu.Lock()
	s.Counters[name]++
	s.mu.Unlock()
}

// Step returns the number of the step in progress (the number of releases so far).
func (s *Sim) Step() int {
	s.mu.Lock()
	defer s.mu.Unlock()
	return s.step
}

// Step returns the current step of the running simulation, or 0.
func Step() int {
	s := cur.Load()
	if s == nil {
		return 0
	}
	return s.Step()
}

// Hash is the interleaving id: a hash over every scheduling decision.
func (s *Sim) Hash() uint64 { return s.hash }

// Choices returns the number of draws made so far.
func (s *Sim) Choices() int { return s.pos }

// Elapsed returns the simulated time covered so far.
func (s *Sim) Elapsed() time.Duration { return time.Since(s.start) }

func (s *Sim) register(id uint64, label string, lib bool) *Task {
	s.nseq[label]++
	t := &Task{Name: fmt.Sprintf("%s#%d", label, s.nseq[label]), Lib: lib, id: id}
	s.tasks[id] = t
	s.all = append(s.all, t)
	return t
}

// Yield parks the calling task until the scheduler releases it.
func Yield(label string) { YieldWhen(label, nil) }

// YieldWhen parks the calling task; it is eligible only while pred() holds
// (pred is evaluated on the scheduler goroutine with the kernel lock held).
func YieldWhen(label string, pred func() bool) {
	s := cur.Load()
	if s == nil {
		return
	}
	id := goid()
	if id == s.root {
		return
	}
	s.mu.Lock()
	t := s.tasks[id]
	if t == nil {
		t = s.register(id, label, true)
	}
	t.state = Parked
	t.label = label
	t.pred = pred
	g := make(chan struct{})
	t.gate = g
	s.mu.Unlock()
	s.poke()
	<-g
}

// TaskEnter is inserted as the first statement of every function started by a
// go statement in instrumented code.
func TaskEnter(label string) {
	s := cur.Load()
	if s != nil {
		id := goid()
		s.mu.Lock()
		if t := s.tasks[id]; t != nil {
			// a go-target called synchronously from an existing task
			t.nest++
		}
		s.mu.Unlock()
	}
	Yield(label)
}

// TaskExit is deferred right after TaskEnter. It records the exit and turns a
// panic into a recorded crash (the process survives so that the run can be
// reported with its seed).
func TaskExit() {
	r := recover()
	s := cur.Load()
	if s == nil {
		if r != nil {
			panic(r)
		}
		return
	}
	id := goid()
	s.mu.Lock()
	if t := s.tasks[id]; t != nil && t.nest > 0 {
		t.nest--
		s.mu.Unlock()
		if r != nil {
			panic(r)
		}
		return
	}
	s.mu.Unlock()
	s.exit(id, r)
}

func (s *Sim) exit(id uint64, r any) {
	s.mu.Lock()
	t := s.tasks[id]
	if t != nil {
		t.state = Exited
		t.Exit = s.step
		// a mutex the task still holds stays held: whoever wants it next is
		// stuck for good, and is reported as such (MutexWaiters)
	}
	if r != nil {
		name := "?"
		if t != nil {
			name = t.Name
		}
		s.Crashes = append(s.Crashes, &Crash{Task: name, Value: fmt.Sprint(r), Stack: trimStack(string(debug.Stack())), Step: s.step})
	}
	s.mu.Unlock()
	s.poke()
}

func trimStack(st string) string {
	lines := strings.Split(st, "\n")
	var out []string
	for i := 0; i < len(lines); i++ {
		l := lines[i]
		if strings.Contains(l, "runtime/debug.Stack") || strings.Contains(l, "simrt.(*Sim).exit") || strings.Contains(l, "simrt.TaskExit") {
			i++
			continue
		}
		out = append(out, l)
		if len(out) > 60 {
			break
		}
	}
	return strings.Join(out, "\n")
}

// Spawn starts a harness-owned client task.
func (s *Sim) Spawn(name string, fn func()) *Task {
	t := &Task{Name: name}
	s.mu.Lock()
	s.all = append(s.all, t)
	s.mu.Unlock()
	ready := make(chan struct{})
	go func() {
		id := goid()
		s.mu.Lock()
		t.id = id
		s.tasks[id] = t
		s.mu.Unlock()
		close(ready)
		defer func() {
			s.exit(id, recover())
		}()
		Yield("start")
		fn()
	}()
	<-ready
	return t
}

// Sleep is a fake-clock sleep for harness tasks. While any task sleeps, the
// scheduler's candidate list has the extra entry "advance the clock".
func Sleep(d time.Duration) {
	s := cur.Load()
	if s == nil || d <= 0 {
		Yield("sleep0")
		return
	}
	id := goid()
	s.mu.Lock()
	t := s.tasks[id]
	s.sleepers++
	if t != nil {
		t.state = Sleeping
	}
	s.mu.Unlock()
	time.Sleep(d)
	s.mu.Lock()
	s.sleepers--
	s.mu.Unlock()
	Yield("woke")
}

// MuLock replaces (*sync.Mutex).Lock in instrumented code: sync.Mutex does not
// block durably inside a synctest bubble, so waiting is done at a yield.
func MuLock(m *sync.Mutex, label string) {
	s := cur.Load()
	if s == nil {
		m.Lock()
		return
	}
	id := goid()
	if id == s.root {
		if !m.TryLock() {
			panic("simrt: root goroutine would block on a mutex held by a parked task: " + label)
		}
		s.mu.Lock()
		s.muHeld[m] = rootHolder
		s.mu.Unlock()
		return
	}
	Yield(label)
	for {
		s.mu.Lock()
		t := s.tasks[id]
		if s.muHeld[m] == nil {
			if t == nil {
				t = rootHolder
			}
			s.muHeld[m] = t
			s.mu.Unlock()
			break
		}
		if t != nil {
			t.waitMu = m
		}
		s.mu.Unlock()
		YieldWhen(label+" mutex-wait", func() bool { return s.muHeld[m] == nil })
	}
	if !m.TryLock() {
		panic("simrt: a mutex is locked behind the scheduler's back: " + label)
	}
}

// rootHolder stands for the scheduler goroutine in the table of held mutexes
// (harness code that calls into the library between runs of the tasks).
var rootHolder = &Task{Name: "the scheduler goroutine"}

// MuUnlock replaces (*sync.Mutex).Unlock.
func MuUnlock(m *sync.Mutex) {
	m.Unlock()
	s := cur.Load()
	if s == nil {
		return
	}
	s.mu.Lock()
	delete(s.muHeld, m)
	s.mu.Unlock()
}

// SelectOrder returns the order in which an instrumented select tries its n
// cases before falling into the blocking select.
func SelectOrder(n int) []int {
	p := make([]int, n)
	for i := range p {
		p[i] = i
	}
	s := cur.Load()
	if s == nil {
		return p
	}
	if goid() == s.root {
		return p
	}
	s.mu.Lock()
	for i := n - 1; i > 0; i-- {
		j := s.choose(i + 1)
		p[i], p[j] = p[j], p[i]
	}
	s.mu.Unlock()
	return p
}

// Reason says why Run returned.
type Reason string

const (
	Done      Reason = "done"
	Quiescent Reason = "quiescent"
	StepCap   Reason = "stepcap"
	Horizon   Reason = "horizon"
)

const idleHorizon = 6 * time.Hour

// Run schedules tasks until until() holds (checked at every step boundary),
// nothing can run any more (Quiescent), maxSteps releases were made, or the
// fake clock passed deadline (zero: none).
func (s *Sim) Run(maxSteps int, until func() bool, deadline time.Time) Reason {
	for n := 0; ; {
		synctest.Wait()
		select {
		case <-s.wake:
		default:
		}
		if s.AfterStep != nil {
			s.AfterStep()
		}
		if until != nil && until() {
			return Done
		}
		now := time.Now()
		if !deadline.IsZero() && !now.Before(deadline) {
			return Horizon
		}
		if n >= maxSteps {
			return StepCap
		}
		s.mu.Lock()
		var cands []*Task
		for _, t := range s.all {
			if t.state == Parked && (t.pred == nil || t.pred()) {
				cands = append(cands, t)
			}
		}
		sort.Slice(cands, func(a, b int) bool { return cands[a].Name < cands[b].Name })
		sleepers := s.sleepers
		wait := idleHorizon
		if !deadline.IsZero() && deadline.Sub(now) < wait {
			wait = deadline.Sub(now)
		}
		if len(cands) == 0 {
			s.mu.Unlock()
			if !s.idle(wait) {
				// nothing woke up for the whole wait: quiescent. (Horizon is for
				// activity that is still going on when the deadline passes.)
				return Quiescent
			}
			continue
		}
		k := s.pick(cands, sleepers > 0)
		if k == len(cands) {
			s.hash = mix(s.hash, "advance", "", k, len(cands)+1)
			if s.KeepLog {
				s.Log = append(s.Log, fmt.Sprintf("%d advance-clock", s.step))
			}
			s.mu.Unlock()
			s.idle(wait)
			continue
		}
		t := cands[k]
		t.state = Running
		t.pred = nil
		t.waitMu = nil
		s.last = t
		s.Released[t.label]++
		s.step++
		n++
		s.hash = mix(s.hash, t.Name, t.label, k, len(cands))
		if s.KeepLog {
			s.Log = append(s.Log, fmt.Sprintf("%d %s @ %s [%d/%d]", s.step, t.Name, t.label, k, len(cands)))
		}
		g := t.gate
		s.mu.Unlock()
		close(g)
	}
}

// idle blocks the scheduler so that the bubble's clock can advance; it
// reports false when nothing woke it within d.
func (s *Sim) idle(d time.Duration) bool {
	tm := time.NewTimer(d)
	defer tm.Stop()
	select {
	case <-s.wake:
		return true
	case <-tm.C:
		return false
	}
}

func mix(h uint64, name, label string, k, n int) uint64 {
	f := fnv.New64a()
	fmt.Fprintf(f, "%x|%s|%s|%d/%d", h, name, label, k, n)
	return f.Sum64()
}

// pick chooses the index of the task to release; len(cands) means "advance
// the clock instead". Called with s.mu held.
func (s *Sim) pick(cands []*Task, canAdvance bool) int {
	b := s.Bias
	if b.Starve != "" && s.step < b.StarveTill {
		var keep []int
		for i, t := range cands {
			if !strings.HasPrefix(t.Name, b.Starve) {
				keep = append(keep, i)
			}
		}
		if len(keep) > 0 && len(keep) < len(cands) {
			return keep[s.choose(len(keep))]
		}
	}
	if b.Sticky > 0 && s.last != nil && len(cands) > 1 {
		for i, t := range cands {
			if t == s.last {
				if s.choose(100) < b.Sticky {
					return i
				}
				break
			}
		}
	}
	n := len(cands)
	if canAdvance {
		n++
	}
	return s.choose(n)
}

// Tasks returns a snapshot of all tasks, in registration order.
func (s *Sim) Tasks() []Info {
	s.mu.Lock()
	defer s.mu.Unlock()
	out := make([]Info, 0, len(s.all))
	for _, t := range s.all {
		out = append(out, Info{Name: t.Name, Lib: t.Lib, State: t.state, Label: t.label})
	}
	return out
}

// MutexWaiters lists tasks parked on a mutex that is still held.
func (s *Sim) MutexWaiters() []string {
	s.mu.Lock()
	defer s.mu.Unlock()
	var out []string
	for _, t := range s.all {
		if t.state == Parked && t.waitMu != nil {
			if h := s.muHeld[t.waitMu]; h != nil {
				out = append(out, fmt.Sprintf("%s waits at %s for a mutex held by %s (%s at %s)", t.Name, t.label, h.Name, h.state, h.label))
			}
		}
	}
	return out
}

// NoteState records an abstract-state hash for the distinct-states measure.
func (s *Sim) NoteState(h uint64) { s.States[h] = struct{}{} }

// ParkedLabels returns the sorted labels of parked tasks (part of the abstract state).
func (s *Sim) ParkedLabels() string {
	s.mu.Lock()
	defer s.mu.Unlock()
	var l []string
	for _, t := range s.all {
		if t.state == Parked {
			l = append(l, t.label)
		}
	}
	sort.Strings(l)
	return strings.Join(l, ",")
}

// Logf appends a line to the schedule log of a verbose replay; it draws
// nothing and is a no-op otherwise.
func Logf(format string, a ...any) {
	s := cur.Load()
	if s == nil || !s.KeepLog {
		return
	}
	s.mu.Lock()
	s.Log = append(s.Log, fmt.Sprintf("   %d: ", s.step)+fmt.Sprintf(format, a...))
	s.mu.Unlock()
}

// Settle waits, on the scheduler goroutine, until every other goroutine of the
// bubble is durably blocked, without releasing anybody. Harnesses call it
// between two actions of the root goroutine that each start goroutines with
// the same entry label, so that task ordinals do not depend on real-time
// arrival order.
func (s *Sim) Settle() { synctest.Wait() }

// SleepIdle is a fake-clock sleep that is never cut short by the scheduler's
// "advance the clock" choice: the clock only reaches its end once every other
// task is blocked, i.e. the caller resumes after the rest of the system has
// gone quiet.
func SleepIdle(d time.Duration) {
	s := cur.Load()
	if s == nil {
		return
	}
	id := goid()
	s.mu.Lock()
	if t := s.tasks[id]; t != nil {
		t.state = Sleeping
	}
	s.mu.Unlock()
	time.Sleep(d)
	Yield("woke-idle")
}
