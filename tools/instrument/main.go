// Command instrument rewrites the concurrent packages of a scratch copy of
// vimeo/dials so that the simulator (simrt) decides every interleaving.
//
//	instrument <scratch-copy-of-repo> [pkg ...]
//
// The complete list of rewrites (DESIGN.md §2.2):
//   - simrt.Yield before and after send statements, receive statements,
//     close(ch), atomic accesses; before every select and as the first
//     statement of each of its comm clauses; before a range-over-channel loop
//     and first in its body; after every go statement;
//   - simrt.TaskEnter / defer simrt.TaskExit as a prologue of every function
//     or literal started by a go statement;
//   - selects with two or more comm clauses are determinised: the clauses are
//     tried one at a time, non-blockingly, in an order drawn from the run's
//     choice stream, before the original blocking select is entered;
//   - (*sync.Mutex).Lock/Unlock -> simrt.MuLock/MuUnlock;
//   - in sources/file: os.Open -> simrt.Open, filepath.EvalSymlinks ->
//     simrt.EvalSymlinks.
//
// No statement is reordered or removed. Exit status 2 means the tree could not
// be instrumented (build trouble), never a verdict about a property.
package main

import (
	"bytes"
	"fmt"
	"go/ast"
	"go/parser"
	"go/printer"
	"go/token"
	"go/types"
	"os"
	"path/filepath"
	"reflect"
	"regexp"
	"sort"
	"strconv"
	"strings"

	"golang.org/x/tools/go/packages"
)

var (
	fset    *token.FileSet
	info    *types.Info
	labelN  int
	stats   = map[string]int{}
	curFile string
)

func die(format string, a ...any) {
	fmt.Fprintf(os.Stderr, "instrument: "+format+"\n", a...)
	os.Exit(2)
}

func sel(pkg, name string) ast.Expr {
	return &ast.SelectorExpr{X: ast.NewIdent(pkg), Sel: ast.NewIdent(name)}
}

func strlit(s string) ast.Expr {
	return &ast.BasicLit{Kind: token.STRING, Value: strconv.Quote(s)}
}

func label(pos token.Pos, kind string) string {
	p := fset.Position(pos)
	return fmt.Sprintf("%s:%d %s", filepath.Base(p.Filename), p.Line, kind)
}

func yield(pos token.Pos, kind string) ast.Stmt {
	stats["yield"]++
	return &ast.ExprStmt{X: &ast.CallExpr{Fun: sel("simrt", "Yield"), Args: []ast.Expr{strlit(label(pos, kind))}}}
}

// scan reports whether f holds for some node of e outside function literals.
func scan(e ast.Node, f func(ast.Node) bool) bool {
	if e == nil {
		return false
	}
	found := false
	ast.Inspect(e, func(n ast.Node) bool {
		if found {
			return false
		}
		if _, ok := n.(*ast.FuncLit); ok {
			return false
		}
		if n != nil && f(n) {
			found = true
		}
		return true
	})
	return found
}

func hasRecv(e ast.Node) bool {
	return scan(e, func(n ast.Node) bool { u, ok := n.(*ast.UnaryExpr); return ok && u.Op == token.ARROW })
}

func isClose(c *ast.CallExpr) bool {
	id, ok := c.Fun.(*ast.Ident)
	if !ok || id.Name != "close" {
		return false
	}
	_, isBuiltin := info.Uses[id].(*types.Builtin)
	return isBuiltin
}

func fromPkg(obj types.Object, path string) bool {
	return obj != nil && obj.Pkg() != nil && obj.Pkg().Path() == path
}

func isAtomicCall(c *ast.CallExpr) bool {
	s, ok := c.Fun.(*ast.SelectorExpr)
	if !ok {
		return false
	}
	if sl, ok := info.Selections[s]; ok {
		return fromPkg(sl.Obj(), "sync/atomic")
	}
	return fromPkg(info.Uses[s.Sel], "sync/atomic")
}

func hasAtomicOrClose(e ast.Node) bool {
	return scan(e, func(n ast.Node) bool {
		c, ok := n.(*ast.CallExpr)
		return ok && (isAtomicCall(c) || isClose(c))
	})
}

// mutexCall recognises X.Lock() / X.Unlock() on a sync.Mutex and returns the
// replacement call.
func mutexCall(c *ast.CallExpr, pos token.Pos) *ast.CallExpr {
	s, ok := c.Fun.(*ast.SelectorExpr)
	if !ok || len(c.Args) != 0 {
		return nil
	}
	sl, ok := info.Selections[s]
	if !ok || !fromPkg(sl.Obj(), "sync") {
		return nil
	}
	recv := sl.Recv()
	isPtr := false
	if p, ok := recv.(*types.Pointer); ok {
		recv = p.Elem()
		isPtr = true
	}
	named, ok := recv.(*types.Named)
	if !ok || named.Obj().Name() != "Mutex" || !fromPkg(named.Obj(), "sync") {
		return nil
	}
	var arg ast.Expr = s.X
	if !isPtr {
		arg = &ast.UnaryExpr{Op: token.AND, X: s.X}
	}
	switch s.Sel.Name {
	case "Lock":
		stats["mutex"]++
		return &ast.CallExpr{Fun: sel("simrt", "MuLock"), Args: []ast.Expr{arg, strlit(label(pos, "lock"))}}
	case "Unlock":
		return &ast.CallExpr{Fun: sel("simrt", "MuUnlock"), Args: []ast.Expr{arg}}
	}
	return nil
}

func isChanType(e ast.Expr) bool {
	tv, ok := info.Types[e]
	if !ok || tv.Type == nil {
		return false
	}
	_, isChan := tv.Type.Underlying().(*types.Chan)
	return isChan
}

// syncKind classifies a simple statement that touches a channel or an atomic.
func syncKind(s ast.Stmt) (string, bool, bool) { // kind, pre, post
	switch st := s.(type) {
	case *ast.SendStmt:
		return "send", true, true
	case *ast.ExprStmt:
		if hasRecv(st.X) {
			return "recv", true, true
		}
		if hasAtomicOrClose(st.X) {
			return "sync", true, true
		}
	case *ast.AssignStmt:
		for _, r := range st.Rhs {
			if hasRecv(r) {
				return "recv", true, true
			}
			if hasAtomicOrClose(r) {
				return "sync", true, true
			}
		}
	case *ast.DeclStmt:
		if hasRecv(st) || hasAtomicOrClose(st) {
			return "sync", true, true
		}
	case *ast.ReturnStmt:
		if hasRecv(st) || hasAtomicOrClose(st) {
			return "sync", true, false
		}
	case *ast.IfStmt:
		if hasRecv(st.Init) || hasRecv(st.Cond) || hasAtomicOrClose(st.Init) || hasAtomicOrClose(st.Cond) {
			return "sync", true, false
		}
	case *ast.SwitchStmt:
		if hasRecv(st.Init) || hasRecv(st.Tag) || hasAtomicOrClose(st.Init) || hasAtomicOrClose(st.Tag) {
			return "sync", true, false
		}
	case *ast.GoStmt:
		return "go", false, true
	}
	return "", false, false
}

type rewriter struct {
	goTargets map[types.Object]bool
	osOpen    bool
	evalSym   bool
}

func (r *rewriter) list(list []ast.Stmt) []ast.Stmt {
	var out []ast.Stmt
	for _, s := range list {
		r.stmt(s)
		inner := s
		lbl, labeled := s.(*ast.LabeledStmt)
		if labeled {
			inner = lbl.Stmt
		}
		switch st := inner.(type) {
		case *ast.RangeStmt:
			if isChanType(st.X) {
				out = append(out, yield(s.Pos(), "range-pre"))
				st.Body.List = append([]ast.Stmt{yield(st.Body.Pos(), "range-body")}, st.Body.List...)
			}
			out = append(out, s)
			continue
		case *ast.SelectStmt:
			if labeled {
				die("%s: labeled select is not supported", fset.Position(s.Pos()))
			}
			out = append(out, yield(s.Pos(), "select"))
			out = append(out, r.selectStmt(st))
			continue
		case *ast.ExprStmt:
			if c, ok := st.X.(*ast.CallExpr); ok {
				if m := mutexCall(c, s.Pos()); m != nil {
					st.X = m
					out = append(out, s)
					continue
				}
			}
		case *ast.DeferStmt:
			if m := mutexCall(st.Call, s.Pos()); m != nil {
				st.Call = m
				out = append(out, s)
				continue
			}
			if isClose(st.Call) {
				call := st.Call
				st.Call = &ast.CallExpr{Fun: &ast.FuncLit{
					Type: &ast.FuncType{Params: &ast.FieldList{}},
					Body: &ast.BlockStmt{List: []ast.Stmt{
						yield(s.Pos(), "deferred-close-pre"),
						&ast.ExprStmt{X: call},
						yield(s.Pos(), "deferred-close-post"),
					}},
				}}
				out = append(out, s)
				continue
			}
		}
		if kind, pre, post := syncKind(inner); kind != "" {
			if pre {
				out = append(out, yield(s.Pos(), kind+"-pre"))
			}
			out = append(out, s)
			if post {
				out = append(out, yield(s.Pos(), kind+"-post"))
			}
			continue
		}
		out = append(out, s)
	}
	return out
}

func (r *rewriter) stmt(s ast.Stmt) {
	// function literals anywhere in the statement (callbacks, deferred closures)
	r.funcLits(s)
	switch st := s.(type) {
	case *ast.BlockStmt:
		st.List = r.list(st.List)
	case *ast.LabeledStmt:
		r.stmt(st.Stmt)
	case *ast.IfStmt:
		r.stmt(st.Body)
		if st.Else != nil {
			r.stmt(st.Else)
		}
	case *ast.ForStmt:
		r.stmt(st.Body)
	case *ast.RangeStmt:
		r.stmt(st.Body)
	case *ast.SwitchStmt:
		r.stmt(st.Body)
	case *ast.TypeSwitchStmt:
		r.stmt(st.Body)
	case *ast.CaseClause:
		st.Body = r.list(st.Body)
	case *ast.SelectStmt:
		for _, c := range st.Body.List {
			cc := c.(*ast.CommClause)
			cc.Body = r.list(cc.Body)
			if cc.Comm != nil {
				cc.Body = append([]ast.Stmt{yield(cc.Pos(), "clause")}, cc.Body...)
			}
		}
	}
}

// funcLits instruments the bodies of function literals that appear directly
// in s (not inside nested statements, which are visited on their own).
func (r *rewriter) funcLits(s ast.Stmt) {
	visit := func(e ast.Node, goTarget bool) {
		if e == nil {
			return
		}
		ast.Inspect(e, func(n ast.Node) bool {
			if fl, ok := n.(*ast.FuncLit); ok {
				fl.Body.List = r.list(fl.Body.List)
				if goTarget {
					entry(fl.Body, fl.Pos())
					goTarget = false
				}
				return false
			}
			return true
		})
	}
	switch st := s.(type) {
	case *ast.ExprStmt:
		visit(st.X, false)
	case *ast.AssignStmt:
		for _, e := range st.Rhs {
			visit(e, false)
		}
	case *ast.DeclStmt:
		visit(st.Decl, false)
	case *ast.ReturnStmt:
		for _, e := range st.Results {
			visit(e, false)
		}
	case *ast.DeferStmt:
		visit(st.Call, false)
	case *ast.GoStmt:
		if fl, ok := st.Call.Fun.(*ast.FuncLit); ok {
			fl.Body.List = r.list(fl.Body.List)
			entry(fl.Body, fl.Pos())
			for _, a := range st.Call.Args {
				visit(a, false)
			}
		} else {
			visit(st.Call, false)
		}
	case *ast.SendStmt:
		visit(st.Value, false)
	}
}

func entry(b *ast.BlockStmt, pos token.Pos) {
	stats["go-entry"]++
	b.List = append([]ast.Stmt{
		&ast.ExprStmt{X: &ast.CallExpr{Fun: sel("simrt", "TaskEnter"), Args: []ast.Expr{strlit(label(pos, "entry"))}}},
		&ast.DeferStmt{Call: &ast.CallExpr{Fun: sel("simrt", "TaskExit")}},
	}, b.List...)
}

func printStmts(list []ast.Stmt) string {
	var buf bytes.Buffer
	cfg := printer.Config{Mode: printer.RawFormat}
	for _, s := range list {
		if err := cfg.Fprint(&buf, fset, s); err != nil {
			die("print: %v", err)
		}
		buf.WriteString("\n")
	}
	return buf.String()
}

var ourLabel = regexp.MustCompile(`\b(_s(?:Try|End|o|i)_\d+(?:_c\d+)*)\b`)

// copyStmts deep-copies statements by printing and re-parsing them; labels and
// variables introduced by an inner select rewrite get a suffix so that the
// copy does not collide with the original.
func copyStmts(list []ast.Stmt, suffix string) []ast.Stmt {
	src := printStmts(list)
	src = ourLabel.ReplaceAllString(src, "${1}"+suffix)
	f, err := parser.ParseFile(token.NewFileSet(), "", "package p\nfunc _() {\n"+src+"\n}\n", 0)
	if err != nil {
		die("re-parse of a select clause body failed: %v\n%s", err, src)
	}
	body := f.Decls[0].(*ast.FuncDecl).Body.List
	clearPos(body)
	return body
}

// clearPos zeroes every token.Pos in the copied statements: they were parsed
// in a private FileSet and would be misread against the main one by go/printer.
func clearPos(list []ast.Stmt) {
	posType := reflect.TypeOf(token.NoPos)
	for _, s := range list {
		ast.Inspect(s, func(n ast.Node) bool {
			if n == nil {
				return false
			}
			v := reflect.ValueOf(n)
			if v.Kind() != reflect.Ptr || v.IsNil() {
				return true
			}
			v = v.Elem()
			if v.Kind() != reflect.Struct {
				return true
			}
			for i := 0; i < v.NumField(); i++ {
				if f := v.Field(i); f.Type() == posType && f.CanSet() {
					f.SetInt(0)
				}
			}
			return true
		})
	}
}

func terminates(list []ast.Stmt) bool {
	if len(list) == 0 {
		return false
	}
	switch st := list[len(list)-1].(type) {
	case *ast.ReturnStmt:
		return true
	case *ast.BranchStmt:
		return st.Tok != token.FALLTHROUGH
	case *ast.ExprStmt:
		if c, ok := st.X.(*ast.CallExpr); ok {
			if id, ok := c.Fun.(*ast.Ident); ok && id.Name == "panic" {
				return true
			}
		}
	}
	return false
}

// retargetBreaks replaces unlabeled breaks that refer to the enclosing select
// by goto end. It reports how many were replaced. User labels in the body make
// duplication impossible.
func retargetBreaks(list []ast.Stmt, end string) int {
	n := 0
	var walk func(s ast.Stmt, depth int)
	walkList := func(l []ast.Stmt, depth int) {
		for i, s := range l {
			if b, ok := s.(*ast.BranchStmt); ok && b.Tok == token.BREAK && b.Label == nil && depth == 0 {
				l[i] = &ast.BranchStmt{Tok: token.GOTO, Label: ast.NewIdent(end)}
				n++
				continue
			}
			walk(s, depth)
		}
	}
	walk = func(s ast.Stmt, depth int) {
		switch st := s.(type) {
		case *ast.BlockStmt:
			walkList(st.List, depth)
		case *ast.LabeledStmt:
			if !strings.HasPrefix(st.Label.Name, "_s") {
				die("label %s inside a select clause body: cannot duplicate", st.Label.Name)
			}
			walk(st.Stmt, depth)
		case *ast.IfStmt:
			walk(st.Body, depth)
			if st.Else != nil {
				walk(st.Else, depth)
			}
		case *ast.ForStmt:
			walk(st.Body, depth+1)
		case *ast.RangeStmt:
			walk(st.Body, depth+1)
		case *ast.SwitchStmt:
			walk(st.Body, depth+1)
		case *ast.TypeSwitchStmt:
			walk(st.Body, depth+1)
		case *ast.SelectStmt:
			walk(st.Body, depth+1)
		case *ast.CaseClause:
			walkList(st.Body, depth)
		case *ast.CommClause:
			walkList(st.Body, depth)
		}
	}
	walkList(list, 0)
	return n
}

// selectStmt builds the determinised form of sel (whose clause bodies are
// already instrumented).
func (r *rewriter) selectStmt(s *ast.SelectStmt) ast.Stmt {
	var comm []*ast.CommClause
	for _, c := range s.Body.List {
		if cc := c.(*ast.CommClause); cc.Comm != nil {
			comm = append(comm, cc)
		}
	}
	if len(comm) < 2 {
		return s
	}
	stats["select-determinised"]++
	labelN++
	k := strconv.Itoa(labelN)
	try, end, so, si := "_sTry_"+k, "_sEnd_"+k, "_so_"+k, "_si_"+k
	gotos := 0
	var cases []ast.Stmt
	for i, cc := range comm {
		body := copyStmts(cc.Body, "_c"+k)
		gotos += retargetBreaks(body, end)
		if !terminates(body) {
			body = append(body, &ast.BranchStmt{Tok: token.GOTO, Label: ast.NewIdent(end)})
			gotos++
		}
		commCopy := copyStmts([]ast.Stmt{cc.Comm}, "_c"+k)[0]
		one := &ast.SelectStmt{Body: &ast.BlockStmt{List: []ast.Stmt{
			&ast.CommClause{Comm: commCopy, Body: body},
			&ast.CommClause{},
		}}}
		cases = append(cases, &ast.CaseClause{
			List: []ast.Expr{&ast.BasicLit{Kind: token.INT, Value: strconv.Itoa(i)}},
			Body: []ast.Stmt{one},
		})
	}
	n := &ast.BasicLit{Kind: token.INT, Value: strconv.Itoa(len(comm))}
	blk := &ast.BlockStmt{List: []ast.Stmt{
		&ast.AssignStmt{Lhs: []ast.Expr{ast.NewIdent(so)}, Tok: token.DEFINE,
			Rhs: []ast.Expr{&ast.CallExpr{Fun: sel("simrt", "SelectOrder"), Args: []ast.Expr{n}}}},
		&ast.AssignStmt{Lhs: []ast.Expr{ast.NewIdent(si)}, Tok: token.DEFINE, Rhs: []ast.Expr{&ast.BasicLit{Kind: token.INT, Value: "0"}}},
		&ast.LabeledStmt{Label: ast.NewIdent(try), Stmt: &ast.IfStmt{
			Cond: &ast.BinaryExpr{X: ast.NewIdent(si), Op: token.LSS, Y: n},
			Body: &ast.BlockStmt{List: []ast.Stmt{
				&ast.SwitchStmt{Tag: &ast.IndexExpr{X: ast.NewIdent(so), Index: ast.NewIdent(si)}, Body: &ast.BlockStmt{List: cases}},
				&ast.IncDecStmt{X: ast.NewIdent(si), Tok: token.INC},
				&ast.BranchStmt{Tok: token.GOTO, Label: ast.NewIdent(try)},
			}},
		}},
		s,
	}}
	if gotos > 0 {
		blk.List = append(blk.List, &ast.LabeledStmt{Label: ast.NewIdent(end), Stmt: &ast.EmptyStmt{Implicit: true}})
	}
	return blk
}

// callSubst replaces os.Open and filepath.EvalSymlinks call targets.
func (r *rewriter) callSubst(f *ast.File) {
	ast.Inspect(f, func(n ast.Node) bool {
		// a tree that hands the opened file to helpers declares them with
		// *os.File: those become *simrt.File too (it embeds the real one)
		if st, ok := n.(*ast.StarExpr); ok {
			if s, ok := st.X.(*ast.SelectorExpr); ok && s.Sel.Name == "File" && fromPkg(info.Uses[s.Sel], "os") {
				st.X = sel("simrt", "File")
				r.osOpen = true
				stats["*os.File"]++
			}
			return true
		}
		c, ok := n.(*ast.CallExpr)
		if !ok {
			return true
		}
		s, ok := c.Fun.(*ast.SelectorExpr)
		if !ok {
			return true
		}
		obj := info.Uses[s.Sel]
		switch {
		case fromPkg(obj, "os") && s.Sel.Name == "Open":
			c.Fun = sel("simrt", "Open")
			r.osOpen = true
			stats["os.Open"]++
		case fromPkg(obj, "path/filepath") && s.Sel.Name == "EvalSymlinks":
			c.Fun = sel("simrt", "EvalSymlinks")
			r.evalSym = true
			stats["EvalSymlinks"]++
		}
		return true
	})
}

func buildConstraint(src []byte) string {
	var keep []string
	for _, l := range strings.Split(string(src), "\n") {
		t := strings.TrimSpace(l)
		if strings.HasPrefix(t, "package ") {
			break
		}
		if strings.HasPrefix(t, "//go:build") || strings.HasPrefix(t, "// +build") {
			keep = append(keep, t)
		}
	}
	if len(keep) == 0 {
		return ""
	}
	return strings.Join(keep, "\n") + "\n\n"
}

func main() {
	if len(os.Args) < 3 {
		die("usage: instrument <dir> <pkg>...")
	}
	base, err := filepath.Abs(os.Args[1])
	if err != nil {
		die("%v", err)
	}
	var patterns []string
	for _, p := range os.Args[2:] {
		patterns = append(patterns, "./"+strings.TrimPrefix(p, "./"))
	}
	fset = token.NewFileSet()
	cfg := &packages.Config{
		Mode: packages.NeedName | packages.NeedFiles | packages.NeedCompiledGoFiles | packages.NeedSyntax |
			packages.NeedTypes | packages.NeedTypesInfo | packages.NeedImports,
		Dir:  base,
		Fset: fset,
		Env:  os.Environ(),
	}
	pkgs, err := packages.Load(cfg, patterns...)
	if err != nil {
		die("load: %v", err)
	}
	bad := false
	for _, p := range pkgs {
		for _, e := range p.Errors {
			fmt.Fprintf(os.Stderr, "instrument: %s: %v\n", p.PkgPath, e)
			bad = true
		}
	}
	if bad {
		os.Exit(2)
	}
	// go-statement targets, across all loaded packages
	r := &rewriter{goTargets: map[types.Object]bool{}}
	for _, p := range pkgs {
		for _, f := range p.Syntax {
			ast.Inspect(f, func(n ast.Node) bool {
				g, ok := n.(*ast.GoStmt)
				if !ok {
					return true
				}
				switch fn := g.Call.Fun.(type) {
				case *ast.SelectorExpr:
					if o, ok := p.TypesInfo.Uses[fn.Sel].(*types.Func); ok {
						r.goTargets[o.Origin()] = true
					}
				case *ast.Ident:
					if o, ok := p.TypesInfo.Uses[fn].(*types.Func); ok {
						r.goTargets[o.Origin()] = true
					}
				}
				return true
			})
		}
	}
	sort.Slice(pkgs, func(a, b int) bool { return pkgs[a].PkgPath < pkgs[b].PkgPath })
	for _, p := range pkgs {
		info = p.TypesInfo
		for i, f := range p.Syntax {
			name := p.CompiledGoFiles[i]
			curFile = name
			orig, err := os.ReadFile(name)
			if err != nil {
				die("%v", err)
			}
			r.osOpen, r.evalSym = false, false
			if strings.HasSuffix(p.PkgPath, "/sources/file") {
				r.callSubst(f)
			}
			for _, d := range f.Decls {
				fd, ok := d.(*ast.FuncDecl)
				if !ok || fd.Body == nil {
					continue
				}
				fd.Body.List = r.list(fd.Body.List)
				if r.goTargets[p.TypesInfo.Defs[fd.Name]] {
					entry(fd.Body, fd.Pos())
				}
			}
			f.Comments = nil
			for _, d := range f.Decls {
				switch dd := d.(type) {
				case *ast.FuncDecl:
					dd.Doc = nil
				case *ast.GenDecl:
					dd.Doc = nil
				}
			}
			f.Doc = nil
			var buf bytes.Buffer
			if err := (&printer.Config{Mode: printer.UseSpaces | printer.TabIndent, Tabwidth: 8}).Fprint(&buf, fset, f); err != nil {
				die("print %s: %v", name, err)
			}
			src := buf.String()
			i0 := strings.Index(src, "package ")
			j := i0 + strings.Index(src[i0:], "\n")
			extra := "\nvar _ = simrt.Yield\n"
			if r.osOpen {
				extra += "var _ = os.Open\n"
			}
			if r.evalSym {
				extra += "var _ = filepath.EvalSymlinks\n"
			}
			src = buildConstraint(orig) + src[i0:j] + "\n\nimport \"simrt\"\n" + src[j:] + extra
			if _, err := parser.ParseFile(token.NewFileSet(), name, src, 0); err != nil {
				os.WriteFile(name+".instrumented-bad", []byte(src), 0644)
				die("rewritten %s does not parse: %v", name, err)
			}
			if err := os.WriteFile(name, []byte(src), 0644); err != nil {
				die("%v", err)
			}
		}
	}
	var keys []string
	for k := range stats {
		keys = append(keys, k)
	}
	sort.Strings(keys)
	for _, k := range keys {
		fmt.Printf("instrument: %s=%d\n", k, stats[k])
	}
}
