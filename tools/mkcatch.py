#!/usr/bin/env python3
"""Rewrites DESIGN.md §13 (between the markers) from selftest/mutants.json and seeded/*/meta.json."""
import glob, json, os
V = os.path.dirname(os.path.dirname(os.path.realpath(__file__)))
out = []
out.append("### 13.1 Hand-written breaking changes and reverse patches of the repaired defects (`check selftest mutants`)\n")
p = os.path.join(V, "selftest", "mutants.json")
if os.path.exists(p):
    rows = json.load(open(p))
    out.append("Last full run: %d of %d caught by the quick-tier machinery of the property named (20 000 runs each unless noted).\n" % (sum(1 for r in rows if r["status"] == "caught"), len(rows)))
    out.append("| change (`mutants/<name>.diff`) | property | result | oracle that fired | first failing run, minimised size |")
    out.append("|---|---|---|---|---|")
    for r in rows:
        out.append("| %s | %s | %s | `%s` | %s |" % (r["mutant"], r["property"], r["status"], r["oracle"], r["detail"]))
else:
    out.append("(no self-test result recorded yet)")
out.append("")
out.append("### 13.2 Breaking changes written by independent sub-agents (`seeded/<id>/`)\n")
out.append("Each agent was given only the text of one property and a scratch worktree of /repo; every change was confirmed by me in a fresh worktree (builds, existing suite passes, its own demonstration fails with it and passes without it) before being kept. `first result` is what the machinery said when the change was first run against it, `now` after the strengthening described.\n")
out.append("| id | property | what it needs to manifest | first result | now | oracle | strengthening |")
out.append("|---|---|---|---|---|---|---|")
for f in sorted(glob.glob(os.path.join(V, "seeded", "*", "meta.json"))):
    m = json.load(open(f))
    out.append("| %s | %s | %s | %s | %s | `%s` | %s |" % (m["id"], m["breaks_property"], m["what_it_needs_to_manifest"].replace("|", "/"), m["first_result"], m["result_now"], m.get("oracle", ""), m.get("strengthening", "").replace("|", "/")))
out.append("")
out.append("### 13.3 Property-preserving changes on which every check must stay silent (`check selftest benign`)\n")
p = os.path.join(V, "selftest", "benign.json")
if os.path.exists(p):
    rows = json.load(open(p))
    names = sorted({r["variant"] for r in rows})
    out.append("Last full run: %d of %d (variant, property) pairs silent (20 000 runs each).\n" % (sum(1 for r in rows if r["status"] == "silent"), len(rows)))
    out.append("| change (`benign/<name>.diff`) | checks run | result |")
    out.append("|---|---|---|")
    for n in names:
        rs = [r for r in rows if r["variant"] == n]
        bad = [r for r in rs if r["status"] != "silent"]
        out.append("| %s | %s | %s |" % (n, " ".join(r["property"] for r in rs), "all silent" if not bad else "; ".join("%s: %s %s" % (r["property"], r["status"], r["oracle"]) for r in bad)))
else:
    out.append("(no self-test result recorded yet)")
text = "\n".join(out) + "\n"
d = os.path.join(V, "DESIGN.md")
s = open(d).read()
a, b = "<!-- catch-matrix:begin -->", "<!-- catch-matrix:end -->"
if a not in s:
    s += "\n## 13. Which checks catch which changes\n\n" + a + "\n" + b + "\n"
i, j = s.index(a) + len(a), s.index(b)
s = s[:i] + "\n" + text + s[j:]
open(d, "w").write(s)
print("DESIGN.md §13 rewritten")
