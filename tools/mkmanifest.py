#!/usr/bin/env python3
"""Regenerates /verif/MANIFEST.json from the table below (edit here, not there)."""
import json, os

VERIF = os.path.dirname(os.path.dirname(os.path.realpath(__file__)))

NA = {
 "C01": "pure function of (type, defaults, layer values): no schedule, clock, I/O, fault or history for a simulator to control; needs type/value generation, a different technique (DESIGN.md §5)",
 "C03": "termination and topology of one single-threaded recursive copy over an input graph: input-determined, nothing for deterministic simulation to schedule or fault (DESIGN.md §5)",
 "C10": "Translate/ReverseTranslate are pure functions of (type, mangler chain, values): no concurrency, time or I/O (DESIGN.md §5)",
 "C11": "pure function of (type, environment map, prefix); the environment is an input, not a fault surface (DESIGN.md §5)",
 "C12": "pure function of (type, template, argument list) (DESIGN.md §5)",
 "C14": "pure function of (type, which names are supplied), per source (DESIGN.md §5)",
 "C15": "pure string -> value functions (DESIGN.md §5)",
 "C16": "universally quantified over inputs and types of pure entry points; panics met inside simulated runs are still reported by the property whose run met them (DESIGN.md §5)",
 "C19": "pure string functions (DESIGN.md §5)",
}

COMMON_NOTE = ("Trusted base: go1.26.8 runtime and testing/synctest; /verif/tools/instrument (inserts yields, determinises selects, swaps sync.Mutex for the kernel shim; "
               "no statement is reordered or removed); the harness's oracles. Interleavings are explored at the granularity of the inserted yields; a clean batch is evidence, not proof. ")

CHECKS = {
 "C05": ("deterministic simulation (seeded scheduler over instrumented tree) + per-version fresh-stack oracle + porcupine linearizability",
         "Seeded search over schedules of reporters (sequential and concurrent, blocking and not), readers and registrars against the real monitor. Every installed version is compared, at the step it becomes visible, with a from-scratch Config over the same defaults and the source values its stamps identify; serials must count installs; every (config, serial) pair and Events value a reader obtained must be an installed version, never going backwards; after settling, the view must be the fresh stack of the last received reports (or the last good version); the recorded history of reports and reads is checked for linearizability against a sequential slot/view/serial model.",
         "§4 C05", "Type shapes are sampled through one corpus type (CfgCore); <=4 sources; porcupine histories <= 40 operations, Unknown counted as inconclusive."),
 "C04": ("deterministic simulation + verify-log / install-log ordering oracles",
         "Seeded search over schedules with ~40% invalid stacks from any source, rejecting Verify, ill-typed values (stack errors), all skip/delay option combinations. Every config observable through the install log (sampled after every scheduler step), View, ViewVersion, Events, OnNewConfig or a registered callback while verification is active must have a nil entry in the Verify log before it first became visible and satisfy the harness's own copy of the predicate; Config must fail exactly when the initial stack does not verify; a rejected stack is never installed, its blocking report returns the Verify/stack error and OnWatchedError is called once with the current and the rejected config.",
         "§4 C04", "OnWatchedError clauses only in runs whose callback-queue occupancy bound stays <= 8."),
 "C06": ("deterministic simulation + callback-log ordering model",
         "Seeded search over interleavings of installs, ViewVersion+RegisterCallback pairs (fresh, stale, zero serial), unregistrations and slow callbacks, with scheduler bias that holds the monitor between store and event submission or the callback goroutine at its loop top. Oracles over the total callback log: serialized, installation order, never stale, catch-up exactly when due, no skip while callbacks keep up, nothing after unregister returned true.",
         "§4 C06", "No-skip / +1 clauses only in keep-up runs (occupancy bound <= 8)."),
 "C07": ("deterministic simulation + cancellation placed by the scheduler in every window of the blocking report",
         "Seeded search over blocking and non-blocking reports from 2-3 sources (direct and through Blank.SetSource) with canceller tasks that end the caller's context before submission, between submission and receipt, between receipt and reply, and after return. Oracles: read-your-write at the return step from the install log, rejection coupling with the Verify log, context errors, and bounded liveness: after an abandoned call the monitor still installs a later report and nobody stays blocked.",
         "§4 C07", ""),
 "C08": ("deterministic simulation + deadlock/crash/leak detection under lifecycle faults",
         "Seeded search over all public operations from several tasks with Done in any order, contexts cancelled at arbitrary steps, callbacks that never return, unregister twice, then a shutdown phase (cancel or every watcher Done) followed by late calls. Oracles: no task panics; global quiescence with an outstanding operation whose context has not ended is a deadlock; a blocked callback does not stop installs; after shutdown every library goroutine has exited; late calls return their documented failure indication no later than their own deadline.",
         "§4 C08", ""),
 "C09": ("deterministic simulation + reference state machine (delay x suppress x enabled)",
         "Seeded search over all DelayInitialVerification x CallGlobalCallbacksAfterVerificationEnabled combinations, with and without watchers, reporters, error reports and an enabler retrying EnableVerification while the installed config alternates valid/invalid. Oracles: Verify never runs before the first enable call; a successful enable returns exactly the installed config and serial it verified and later re-stacks are verified; failure keeps the delay; global callbacks are withheld exactly while delayed and suppress is set.",
         "§4 C09", "Whether stack-error events are suppressed is deliberately not asserted."),
 "C02": ("deterministic simulation + address-disjointness and fingerprint oracles over re-stack histories",
         "Seeded search over re-stack histories with shared-structure inputs and a mutator task that scribbles over every config it can obtain. After every install the mutable memory reachable from the new version must be disjoint from the defaults, every source value and every earlier version; fingerprints of inputs never change; later versions equal the fresh-stack oracle and contain no poison; two Config calls on the same inputs are equal and disjoint.",
         "§4 C02", "Type shapes sampled through CfgCore only."),
 "C20": ("deterministic simulation of wrapped/unwrapped twins + Blank history model",
         "Twin Dials in one run, one fed through NewTransformingSource / Blank / transforming decoder, one natively; views must agree after every settled update; inner errors must surface; Blank follows a three-state reference model under drawn SetSource/Done sequences concurrent with reports.",
         "§4 C20", ""),
 "C13": ("fault injection on the decoder input stream (chunking, early EOF, read errors, corruption) + cross-format agreement as the fault-free configuration",
         "Each generated value is rendered to JSON, YAML, TOML and Cue and fed to the real decoders through a faulty reader: arbitrary chunking and zero-length reads must not change the result; an error after k bytes, truncation with error, and known-verdict token corruptions must yield an error and no value; byte flips must yield either an error or a fully typed value, never both. The fault-free configuration asserts that all four decoders agree with each other and with the generating value, absent keys stay unset.",
         "§4 C13", "The cross-format agreement part is seeded generation (stated in DESIGN); the stream-fault part is what simulation decides."),
 "C17": ("deterministic simulation on a real tmpfs + real inotify with simulator-driven event delivery; convergence as bounded liveness",
         "The real WatchingSource, decoders and monitor run against a real directory on tmpfs and a real inotify descriptor whose reader is a simulator task. A writer task performs drawn sequences of in-place rewrites (multi-step), rename-over, identical replace, delete/recreate, Kubernetes-style symlink swaps, malformed and Verify-rejected contents with fake-time pauses; reads race every writer step. After the last change the run settles and the view must equal the fresh stack over the bytes then readable at the path (or stay at the last good version with the error reported); identical replacement must not create a version; every installed version stems from content that was readable; watcher goroutines and the inotify descriptor are released on cancel.",
         "§4 C17", "inotify overflow and watch-add failure are injected in the fsnotify fork; everything else is this sandbox's kernel."),
 "C18": ("deterministic simulation of the ez composition (Blank + delayed verification + blocking report + enable + Events drain) with file changes racing the entry point",
         "ez entry points run as a task against real env/flag/file sources with a writer task racing them. Oracles: first visible config equals the four-layer precedence model; Verify never sees a config without the file's stamp; a rejecting Verify / missing / malformed file is the entry point's error; Events and global callbacks never expose the file-less intermediate; with watching on, later changes converge under the same precedence; ez never hangs.",
         "§4 C18", "Per-leaf precedence is seeded generation; the ordering claims are what simulation decides."),
}

# what the seeded rounds (DESIGN §13.2) added to each check, in one sentence
EXTRA = {
 "C02": " Corpus since grown by aliased inner maps, arrays of pointers, text-unmarshaling leaves, a pointer to an unexported sibling, 120 levels of nesting, Blanks (all-unset stacks); rejected candidates handed to error callbacks are tracked like versions; one struct installed under two serials is aliasing; a map whose keys hold pointers; a type that shares its qualified name with a function-local type loaded earlier in the process; a hidden (shadowed) map in the embedded struct; renderings cover exported fields only.",
 "C04": " Also: every installed snapshot renders at the end as when it became visible (view-mutated); every fresh stack is compared with the harness's own reference model of stacking (C05.model), stale-slot and fresh-stack verdicts count for C04 in its runs; runs without any source; 'verified' means by content, one rejection per candidate.",
 "C05": " Also: reference model of stacking (model.go) beside the library-vs-library fresh stack; Done operations; sources behind wrappers; sources re-reporting and re-using value objects; delayed verification with enablers in 12% of the faulty runs (C04.visible-unverified counts for C05); sources calling Done twice; a watcher that never called Done must still be served after the run settled.",
 "C06": " Also: Config context cancelled mid-run (delivery owed only for what the monitor surely submitted); stall-once callbacks and windows in which the queue has recovered; queue capacity observed, not assumed.",
 "C07": " Also: verify stall (the monitor busy in user code for two simulated hours) with the clause that a call whose own deadline passed meanwhile returned the context error; Done operations; sources behind NewTransformingSource; one to three watchers, two reporters on one source, value objects updated in place; nil-return-with-unverified-install and the stack-correctness oracles (stale-slot, fresh-stack, model) count for C07.",
 "C08": " Also: func-typed (unhashable) static sources; Config context cancelled mid-run; concurrent Blank.Done; watching sources set on a Blank with contexts of the caller's own; verify stall.",
 "C09": " Also: Skip and Delay together; a Verify that is not a pure function (flaky after enable); enable behind a full callback queue; a config type without a Verify method (plain.go); window clauses after abandoned enable calls; one run in sixteen through an ez entry point with a watching flag source (verification on and callbacks delivered after the return, with and without a config file); watchers that finish (Done) while the delay is in force.",
 "C13": " Corpus since grown by an embedded struct with the flattening YAML decoder as fifth configuration (seeded decode order), time.Time in slice elements and []time.Time, *[]time.Duration, integer durations beyond 2^53 ns, escaped JSON strings, present-but-empty sections, a ten-level struct chain; one run in ten decodes several documents at the same time on scheduled tasks through shared Decoder values (scheduling points in the reader and in text-unmarshalable leaves); one run in 200 has a document of 8 KiB to 3 MiB; a slice element with an unexported field and with a pointer-to-struct section; a section inside the embedded struct; a set of structs; field names beginning with a non-ASCII capital; defined integer types with and without a text form.",
 "C17": " Layouts: plain, ..dir, the real ..data layout, and a symlink re-pointed at other names and directories (also at targets that appear later, with polling); JSON and YAML (in-place growth keeping the old bytes as prefix); non-clean spellings of the config path; decode errors that wrap fs.ErrNotExist; the file source behind a transforming source whose mangler refuses some decodable contents; one run in sixteen sets the watching file source on a Blank after Config (three kinds of SetSource context); the error for a broken final content is owed since the last good read.",
 "C18": " Also: aliased and set-typed leaves (explicitly empty), kebab-case file keys, the default command-line flag source with application-registered flags, a symlinked config path with another extension; files that set nothing (empty, comments only), initially and as a later version; a two-level nested section settable by all four layers; a watching flag source reporting valid and invalid updates after the return; values and config paths with = in them; the context cancelled during start-up (the entry point must return).",
 "C20": " Also: the native value written leaf by leaf without library code as reference for the reverse translation (C20.unmangle); per-call SetSource contexts and the watch-context liveness oracle; a concurrent Blank.Done client; a guard struct and nested structs inside the embedded one; several tasks decoding through one transforming decoder value; Verify rejections of values set or reported through the wrappers; updates and sources that set nothing at all; two directly nested transforming sources, every innermost source checking the type it is asked for (C20.inner-type); a sibling wrapper with other zero-size manglers earlier in the same process.",
}

ONLINE = [l.strip() for l in open(os.path.join(VERIF, "tools/online.txt")) if l.strip() and not l.startswith("#")]

checks = []
for pid in ONLINE:
    tech, text, ref, note = CHECKS[pid]
    checks.append({
        "property_id": pid,
        "quick_cmd": "./check %s --tier quick" % pid,
        "thorough_cmd": "./check %s --tier thorough" % pid,
        "evidence_file": "/verif/evidence/%s.json" % pid,
        "replay_cmd_template": "./check %s --replay {path}" % pid,
        "engine": "simrt+instrument",
        "level_claimed": {"category": "exploration", "text": text, "design_ref": "DESIGN.md " + ref},
        "level_note": COMMON_NOTE + note + EXTRA.get(pid, ""),
        "technique": tech,
    })

na = [{"property_id": k, "reason": v} for k, v in sorted(NA.items())]
for pid in sorted(CHECKS):
    if pid not in ONLINE:
        na.append({"property_id": pid, "reason": "simulation target (DESIGN.md %s) but its check is not built yet in this commit; not claimed until it is" % CHECKS[pid][2]})

m = {
 "version": 1,
 "setup_cmd": "./setup.sh",
 "hooks": {"guard": "verif",
           "enable": "no hook is committed to /repo: every check copies /repo's working tree to /dev/shm and /verif/tools/instrument inserts the scheduling points into that copy (DESIGN.md §2.2)",
           "baseline_off_cmd": "cd /repo && GOFLAGS=-mod=mod GOPROXY=off GOSUMDB=off go test -vet=off -count=1 ./...",
           "source_commits": [], "add_only": True},
 "engines": [{"name": "simrt+instrument", "path": "/verif/check", "serves_properties": ONLINE,
              "kind_free_text": "deterministic simulation with fault injection: seeded one-task-at-a-time scheduler inside a testing/synctest bubble (fake clock, quiescence) over an AST-instrumented scratch copy of the tree; simulated sources, faulty readers, real tmpfs + real inotify with a simulator-driven pump; oracles over install / verify / callback / operation logs; ddmin minimiser; replay files"}],
 "checks": checks,
 "not_applicable": na,
 "notes": "See DESIGN.md. Exit 2 of a check means trouble in the machinery (never a verdict). Genuine defects repaired in /repo are listed as 'fixed' in known_findings.json.",
}
json.dump(m, open(os.path.join(VERIF, "MANIFEST.json"), "w"), indent=1)
print("MANIFEST.json: %d checks, %d not applicable" % (len(checks), len(na)))
