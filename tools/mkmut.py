#!/usr/bin/env python3
"""mkmut.py name file <<< 'OLD\n=====\nNEW'  -> /verif/mutants/<name>.diff (against /repo's working tree)"""
import sys, subprocess, os, tempfile
name, f = sys.argv[1], sys.argv[2]
old, new = sys.stdin.read().split("\n=====\n")
old = old.strip("\n"); new = new.strip("\n")
s = open("/repo/" + f).read()
if s.count(old) != 1:
    sys.exit("mkmut %s: pattern occurs %d times in %s" % (name, s.count(old), f))
t = s.replace(old, new)
d = tempfile.mkdtemp()
os.makedirs(d + "/a/" + os.path.dirname(f), exist_ok=True); os.makedirs(d + "/b/" + os.path.dirname(f), exist_ok=True)
open(d + "/a/" + f, "w").write(s); open(d + "/b/" + f, "w").write(t)
out = subprocess.run(["diff", "-u", "a/" + f, "b/" + f], cwd=d, capture_output=True, text=True).stdout
open("/verif/%s/%s.diff" % (os.environ.get("MUTDIR", "mutants"), name), "w").write(out)
print("wrote", name)
