#!/bin/bash
# seeded-check.sh <property> <patch.diff> [extra check args]: applies the patch to /repo, runs the property's
# quick check (evidence untouched), undoes the patch straight afterwards. Prints the verdict line.
P=$1; D=$(readlink -f $2); shift 2
cd /verif
git -C /repo apply "$D" || { echo "SEEDED-CHECK $P: patch does not apply to /repo"; exit 2; }
trap 'git -C /repo checkout -- . ; git -C /repo clean -fdq ; git -C /repo status --short' EXIT
out=$(./check $P --tier quick --no-evidence --min-budget 30 "$@" 2>&1); rc=$?
oracle=$(echo "$out" | grep "^violated oracle" | head -1)
echo "SEEDED-CHECK $P rc=$rc $oracle $(echo "$out" | grep -E "^VIOLATION|held on|TROUBLE" | head -2 | tr '\n' ' ')"
