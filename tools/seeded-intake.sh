#!/bin/bash
# seeded-intake.sh <round> <property> <demo-destination> <go test args...>
# Takes the deliverables of one sub-agent (/tmp/w<round>-<P>/_seeded), confirms them in a fresh worktree
# (seeded-verify.sh), stores them as seeded/r<round>-<P>/, removes the agent's worktree and runs the
# property's quick check against the change (seeded-check.sh).
R=$1; P=$2; DEST=$3; shift 3
W=/tmp/w$R-$P
cd /verif
out=$(tools/seeded-verify.sh $R$P $W/_seeded "$DEST" "$@" 2>&1 | grep "^SEEDED"); echo "$out"
case "$out" in *"suite-with-change=pass demo-with-change=fails demo-without-change=passes"*) ;; *) echo "NOT CONFIRMED - kept in $W"; exit 1;; esac
d=seeded/r$R-$P; mkdir -p $d
cp $W/_seeded/patch.diff $W/_seeded/demo_test.go $d/; cp $W/_seeded/README.md $d/AUTHOR-README.md
echo "$DEST | $*" > $d/.demo
git -C /repo worktree remove --force $W
[ -n "$SKIPCHECK" ] || tools/seeded-check.sh $P $d/patch.diff 2>&1 | tail -1 | cut -c1-400
