#!/bin/bash
# seeded-recheck.sh [id-substring]: runs every stored seeded change against its property's quick check
# again and writes the outcome into its meta.json (result_now, oracle_now).
cd /verif
for d in seeded/*${1:-}*/; do
  id=$(basename $d); P=$(python3 -c "import json;print(json.load(open('$d/meta.json'))['breaks_property'])")
  if grep -q '"neutralised_by"' $d/meta.json; then echo "$id $P neutralised (skipped)"; continue; fi
  line=$(tools/seeded-check.sh $P $d/patch.diff 2>&1 | tail -1)
  rc=$(echo "$line" | sed -n 's/.*rc=\([0-9]*\).*/\1/p'); oracle=$(echo "$line" | sed -n 's/.*violated oracle: \([^ ]*\).*/\1/p')
  case "$rc" in 1) res=caught;; 0) res=missed;; *) res="trouble";; esac
  python3 - "$d/meta.json" "$res" "$oracle" <<'PY'
import json,sys
p,res,oracle=sys.argv[1:4]
m=json.load(open(p)); m["result_now"]=res
if oracle: m["oracle_now"]=oracle
json.dump(m,open(p,"w"),indent=1)
PY
  echo "$id $P $res $oracle"
done
