#!/bin/bash
# seeded-verify.sh <name> <dir-with-patch.diff-and-demo_test.go> <demo-destination-relative-path> <go test args for the demo...>
# Confirms, in a fresh scratch worktree of /repo, that the patch applies, the module builds, the existing suite passes
# with it, the demonstration fails with it and passes without it. Prints one summary line; removes the worktree.
set -u
export GOFLAGS=-mod=mod GOPROXY=off GOSUMDB=off GOTOOLCHAIN=local
name=$1; src=$2; dest=$3; shift 3
wt=/tmp/sv-$name
git -C /repo worktree remove --force $wt >/dev/null 2>&1
git -C /repo worktree add -q --detach $wt HEAD || exit 2
cd $wt
res() { echo "SEEDED $name: $*"; }
git apply $src/patch.diff || { res "patch does not apply"; git -C /repo worktree remove --force $wt; exit 1; }
go build ./... 2>&1 | tail -3
suite=$(go test -vet=off -count=1 ./... 2>&1 | grep -v "^ok\|no test files" | head -5)
[ -z "$suite" ] && suite_ok=pass || suite_ok="FAIL: $suite"
mkdir -p $(dirname $dest); cp $src/demo_test.go $dest
with=$(go test -vet=off -count=1 "$@" 2>&1 | tail -4 | tr '\n' ' ')
echo "$with" | grep -q "^ok\|[^A-Z]ok " && with_ok="passes(!)" || with_ok=fails
git apply -R $src/patch.diff
without=$(go test -vet=off -count=1 "$@" 2>&1 | tail -2 | tr '\n' ' ')
echo "$without" | grep -q "ok " && without_ok=passes || without_ok="FAILS(!): $without"
res "suite-with-change=$suite_ok demo-with-change=$with_ok demo-without-change=$without_ok"
cd /; git -C /repo worktree remove --force $wt
